/-
  WS.Props.C15c — C15 for connections that were ESTABLISHED and then lost ("automatic reconnection restores service
  after loss"), built-in dispatcher loop.  `C15_retry` covers attempts that fail before a connection exists; here every
  attempt before the last one either fails (refused / rejected) or is established, carries any legal traffic and is
  then lost by end of stream, reset, a protocol violation or an undecodable text message — in any mix, any number.
-/
import WS.Lemmas.AppLost
namespace WS.Props.C15c
open WS WS.Model.App WS.Lemmas.App
open WS.Spec.AppTrace (cbOnly)

/-- **C15_resumes** — reconnect interval `r > 0`, callbacks that return or raise, any subset of callbacks.  The attempts
    `a :: as` each fail or are established-then-lost (`Att.Ok`); the next one is established, carries `legal` and is
    closed by the server.  Then the run returns (True: an error was reported) and its network skeleton is exactly:
    the first dial at t₀ with the release that attempt itself performs (`attClose`: a failed dial and an end of stream
    release the socket at once); then per further attempt `sleep r` starting at the very tick the previous attempt was
    over, the release of a transport the previous connection left open (reset, refused frame: `relTrace`, BEFORE the
    dial), the dial exactly `r` later on the next socket index, and that attempt's own release (`attsTrace`); finally
    `sleep r`, release, the successful dial number `|as| + 2`, and after the server's close frame no further dial —
    the last reference is dropped and `run_forever` returns.  So service is restored after EVERY loss, one connection
    at a time, each retry exactly one interval after the loss.
    Callbacks (third conjunct): the first attempt's failure or loss is reported to on_error once (`attCb … false`); a
    re-established connection that is lost again reports NOTHING to on_error (`handleDisconnect(e, reconnecting=True)`);
    every established connection starts with its opening callback (on_reconnect for a re-established one when set, else
    on_open) and delivers exactly the Spec's `expectedDeliveries` at their arrival times (`attCb`, `attsCb`); the last
    connection ends with on_close(code, reason) of the server's close frame, called once, last (`finalCb`). -/
theorem C15_resumes (c : Cfg) (hq : Quiet c) (hacc : argsAccepted c.iv c.to = true) (hiv : c.iv = 0)
    (hr : c.reconnect ≠ 0) (s0 : St) (a : Att) (as : List Att) (legal : List TEv) (te : TEv) (body : Bytes)
    (hs0 : s0.sock = none) (hp0 : s0.ping = none) (hl0 : s0.lastPing = 0)
    (hd : s0.dials = (a :: as).map Att.toDial ++ [.established (legal ++ [te])])
    (hok : ∀ x ∈ a :: as, x.Ok)
    (hleg : ∀ e ∈ legal, isLegal e.ev = true) (hk : te.ev = .close body)
    (hfuel : need0 (selectTimeout c) (legal ++ [te]) + 1 ≤ c.fuel)
    (hfl : ∀ x ∈ a :: as, x.fuel (selectTimeout c) ≤ c.fuel) (hfuel2 : as.length + 2 ≤ c.fuel)
    (hz : endTime (attsEnd c.reconnect (attEnd s0.now a) as + c.reconnect) (legal ++ [te]) ≤ c.horizon) :
    let r := c.reconnect
    let t1 := attEnd s0.now a
    let i1 := s0.nextIdx + 1
    let o1 := attOpen s0.nextIdx a
    let tK := attsEnd r t1 as
    let iK := i1 + as.length
    let tEnd := endTime (tK + r) (legal ++ [te])
    (runForeverO c s0).2 = .returned true ∧
    netOnly (runForever c s0).trace =
      netOnly s0.trace ++ [(s0.now, .dial s0.nextIdx)] ++ attClose s0.now s0.nextIdx a ++
        attsTrace r t1 i1 o1 as ++
        [(tK, .sleep r)] ++ relTrace (tK + r) (attsOpen i1 o1 as) ++
        [(tK + r, .dial iK), (tEnd, .sockDropped iK), (tEnd, .returned true)] ∧
    cbOnly (runForever c s0).trace =
      cbOnly s0.trace ++ (attCb c false s0.calls s0.now a).1 ++
        (attsCb c r (attCb c false s0.calls s0.now a).2 t1 as).1 ++
        finalCb c (attsCb c r (attCb c false s0.calls s0.now a).2 t1 as).2 (tK + r) legal te body := by
  intro r t1 i1 o1 tK iK tEnd
  have hT := selectTimeout_pos c hacc
  have hz1 : attEnd s0.now a ≤ c.horizon := by
    have := attsEnd_ge c.reconnect as (attEnd s0.now a)
    have := endTime_ge (attsEnd c.reconnect (attEnd s0.now a) as + c.reconnect) (legal ++ [te])
    omega
  obtain ⟨s1, e1, e2, e3, e4, e5, e6, e7, e8, e9⟩ := first_attempt c hq hT hiv hr s0 a
    (as.map Att.toDial ++ [.established (legal ++ [te])]) hs0 hp0 hl0 (by simpa using hd) (hok a (by simp))
    (hfl a (by simp)) hz1
  obtain ⟨sF, f1, f2, f3, f4, f5, f6, f7, f8, f9⟩ := rl_mixed c hq hT hiv hr legal te body hleg hk hfuel as s1 c.fuel e2 e3
    (fun x hx => hok x (by simp [hx])) (fun x hx => hfl x (by simp [hx])) hfuel2 (by rw [e5]; exact hz)
  have hrun : runForeverO c s0 = (sF.emit (.returned true), .returned true) := by
    unfold runForeverO
    simp only [hacc, hs0, Bool.not_true, Bool.false_eq_true, ↓reduceIte, Option.isSome_none]
    unfold runBody firstStage
    rw [e1]
    simp only [hr, ne_eq, not_false_eq_true, ↓reduceIte]
    rw [f1, afterBody_done c _ f2]
    simp only [f3]
  refine ⟨by rw [hrun], ?_, ?_⟩
  · unfold runForever
    rw [hrun]
    simp only [St.emit, netOnly_append, f8, e7, e4, e5, e6, f7]
    simp [netOnly, List.append_assoc, r, t1, i1, o1, tK, iK, tEnd]
  · unfold runForever
    rw [hrun]
    simp only [St.emit, cbOnly_append, f9, e8, e9, e5]
    simp [cbOnly, List.append_assoc, r, t1, tK]

/-- the retries of `C15_resumes` are evenly spaced: each attempt is dialled exactly `r` after the previous one was over,
    preceded by a `sleep r` that started at that very tick (read off `attsTrace`; the first three or four entries) -/
theorem C15_resumes_spacing (r t i : Nat) (o : Option Nat) (a : Att) (as : List Att) :
    (attsTrace r t i o (a :: as)).head? = some (t, .sleep r) ∧
    (t + r, Ev.dial i) ∈ attsTrace r t i o (a :: as) ∧
    (∀ j, o = some j → (attsTrace r t i o (a :: as))[1]? = some (t + r, .sockClosed j) ∧
                       (attsTrace r t i o (a :: as))[2]? = some (t + r, .dial i)) ∧
    (o = none → (attsTrace r t i o (a :: as))[1]? = some (t + r, .dial i)) := by
  refine ⟨by simp [attsTrace], by simp [attsTrace], ?_, ?_⟩
  · intro j hj; subst hj; simp [attsTrace, relTrace]
  · intro hn; subst hn; simp [attsTrace, relTrace]

/-- after a lost connection the transport it left open is released BEFORE the next dial, and an attempt never leaves
    more than its own transport open: what is open after the attempts is at most the last attempt's own socket -/
theorem C15_resumes_one_open : ∀ (as : List Att) (i : Nat) (o : Option Nat),
    attsOpen i o as = o ∨ ∃ k, k < as.length ∧ attsOpen i o as = some (i + k) ∨ attsOpen i o as = none := by
  intro as
  induction as with
  | nil => intro i o; exact Or.inl rfl
  | cons a l ih =>
    intro i o
    simp only [attsOpen]
    rcases ih (i + 1) (attOpen i a) with h | ⟨k, h⟩
    · rw [h]
      cases a with
      | fail d => exact Or.inr ⟨0, Or.inr (by simp [attOpen])⟩
      | lost legal te =>
        by_cases hk : te.ev = .eof
        · exact Or.inr ⟨0, Or.inr (by simp [attOpen, hk])⟩
        · exact Or.inr ⟨0, Or.inl ⟨by simp, by simp [attOpen, hk]⟩⟩
    · rcases h with ⟨hk, h⟩ | h
      · exact Or.inr ⟨k + 1, Or.inl ⟨by simp; omega, by rw [h]; congr 1; omega⟩⟩
      · exact Or.inr ⟨0, Or.inr h⟩

/-- hypotheses of `C15_resumes` are satisfiable, and its conclusion evaluated on the world of `C15`'s example (an
    established connection lost by end of stream, a refused retry, a connection reset by the peer, then one the server
    closes): the closed form of the theorem equals what the model computes. -/
example :
    let c : Cfg := { has := fun _ => true, plan := fun _ => [], iv := 0, to := none, payload := [],
                     reconnect := 1024, ssl := false, horizon := 100000, fuel := 50 }
    let a : Att := .lost [⟨100, false, .message 2 [1] false⟩] ⟨100, false, .eof⟩
    let as : List Att := [.fail .refused, .lost [⟨5, false, .ping [7]⟩] ⟨20, false, .reset⟩]
    let legal : List TEv := [⟨70, false, .message 1 [0x61] false⟩]
    let te : TEv := ⟨40, false, .close [3, 232]⟩
    let w : St := { dials := (a :: as).map Att.toDial ++ [.established (legal ++ [te])] }
    netOnly (runForever c w).trace =
      [(0, .dial 0)] ++ attClose 0 0 a ++ attsTrace 1024 (attEnd 0 a) 1 (attOpen 0 a) as ++
        [(attsEnd 1024 (attEnd 0 a) as, .sleep 1024)] ++
        relTrace (attsEnd 1024 (attEnd 0 a) as + 1024) (attsOpen 1 (attOpen 0 a) as) ++
        [(attsEnd 1024 (attEnd 0 a) as + 1024, .dial 3), (3407, .sockDropped 3), (3407, .returned true)] ∧
    netOnly (runForever c w).trace =
      [(0, .dial 0), (200, .sockClosed 0), (200, .sleep 1024), (1224, .dial 1), (1224, .sockClosed 1),
       (1224, .sleep 1024), (2248, .dial 2), (2273, .sleep 1024), (3297, .sockClosed 2), (3297, .dial 3),
       (3407, .sockDropped 3), (3407, .returned true)] := by
  decide

/-- a trace without `sockDropped` (the real run observes the dropping of the last reference through garbage collection only;
    the correspondence compares traces without it) -/
def noDrop (tr : Trace) : Trace :=
  tr.filter fun te => match te.2 with | .sockDropped _ => false | _ => true

theorem noDrop_append (a b : Trace) : noDrop (a ++ b) = noDrop a ++ noDrop b := by simp [noDrop]

theorem noDrop_attClose (t i : Nat) (a : Att) : noDrop (attClose t i a) = attClose t i a := by
  cases a with
  | fail d => simp [noDrop, attClose]
  | lost legal te => by_cases h : te.ev = .eof <;> simp [noDrop, attClose, h]

theorem noDrop_relTrace (t : Nat) (o : Option Nat) : noDrop (relTrace t o) = relTrace t o := by
  cases o <;> simp [noDrop, relTrace]

theorem noDrop_attsTrace (r : Nat) : ∀ (as : List Att) (t i : Nat) (o : Option Nat),
    noDrop (attsTrace r t i o as) = attsTrace r t i o as := by
  intro as
  induction as with
  | nil => intro t i o; simp [noDrop, attsTrace]
  | cons a l ih =>
    intro t i o
    simp only [attsTrace, noDrop_append, noDrop_attClose, noDrop_relTrace, ih]
    simp [noDrop]

/-- **C15_resumes_closed_form** — `C15_resumes` for a freshly constructed object, as ONE executable function of the world:
    the network skeleton of the run (without `sockDropped`) is `resumesSkeleton r a as final`.  The driver op `s-c15-resumes`
    evaluates exactly this function, and `harness/props/c15.py` compares it with the skeleton of the REAL `run_forever` on every
    world of that shape — the theorem's closed form is tied to the code directly, not only through the model. -/
theorem C15_resumes_closed_form (c : Cfg) (hq : Quiet c) (hacc : argsAccepted c.iv c.to = true) (hiv : c.iv = 0)
    (hr : c.reconnect ≠ 0) (a : Att) (as : List Att) (legal : List TEv) (te : TEv) (body : Bytes)
    (hok : ∀ x ∈ a :: as, x.Ok)
    (hleg : ∀ e ∈ legal, isLegal e.ev = true) (hk : te.ev = .close body)
    (hfuel : need0 (selectTimeout c) (legal ++ [te]) + 1 ≤ c.fuel)
    (hfl : ∀ x ∈ a :: as, x.fuel (selectTimeout c) ≤ c.fuel) (hfuel2 : as.length + 2 ≤ c.fuel)
    (hz : endTime (attsEnd c.reconnect (attEnd 0 a) as + c.reconnect) (legal ++ [te]) ≤ c.horizon) :
    noDrop (netOnly (runForever c { dials := (a :: as).map Att.toDial ++ [.established (legal ++ [te])] }).trace) =
      resumesSkeleton c.reconnect a as (legal ++ [te]) := by
  have h := (C15_resumes c hq hacc hiv hr { dials := (a :: as).map Att.toDial ++ [.established (legal ++ [te])] }
    a as legal te body rfl rfl rfl rfl hok hleg hk hfuel hfl hfuel2 hz).2.1
  simp only at h
  rw [h]
  simp only [resumesSkeleton, noDrop_append, noDrop_attClose, noDrop_relTrace, noDrop_attsTrace, netOnly]
  simp [noDrop, Nat.add_comm]

/-- the world of the example above is recognised by `resumesOfWorld` and gives the computed skeleton -/
example :
    let c : Cfg := { has := fun _ => true, plan := fun _ => [], iv := 0, to := none, payload := [],
                     reconnect := 1024, ssl := false, horizon := 100000, fuel := 50 }
    let w : List Dial := [.established [⟨100, false, .message 2 [1] false⟩, ⟨100, false, .eof⟩], .refused,
                          .established [⟨5, false, .ping [7]⟩, ⟨20, false, .reset⟩],
                          .established [⟨70, false, .message 1 [0x61] false⟩, ⟨40, false, .close [3, 232]⟩]]
    resumesOfWorld 1024 w = some (noDrop (netOnly (runForever c { dials := w }).trace)) := by
  decide

/-- the socket indices of the connection attempts in a trace, in order -/
def dialIdx (tr : Trace) : List Nat := tr.filterMap fun te => match te.2 with | .dial i => some i | _ => none

theorem dialIdx_append (a b : Trace) : dialIdx (a ++ b) = dialIdx a ++ dialIdx b := by simp [dialIdx]

theorem dialIdx_attClose (t i : Nat) (a : Att) : dialIdx (attClose t i a) = [] := by
  cases a with
  | fail d => simp [dialIdx, attClose]
  | lost legal te => by_cases h : te.ev = .eof <;> simp [dialIdx, attClose, h]

theorem dialIdx_relTrace (t : Nat) (o : Option Nat) : dialIdx (relTrace t o) = [] := by
  cases o <;> simp [dialIdx, relTrace]

/-- **C15_resumes_one_dial_per_attempt** — in the retries of `C15_resumes` every attempt is dialled exactly once, on the next
    socket index: no loss is followed by two attempts, none by none. -/
theorem C15_resumes_one_dial_per_attempt (r : Nat) : ∀ (as : List Att) (t i : Nat) (o : Option Nat),
    dialIdx (attsTrace r t i o as) = List.range' i as.length := by
  intro as
  induction as with
  | nil => intro t i o; simp [dialIdx, attsTrace]
  | cons a l ih =>
    intro t i o
    simp only [attsTrace, dialIdx_append, dialIdx_attClose, dialIdx_relTrace, ih, List.length_cons]
    simp [dialIdx, List.range'_succ]

/-- and every retry sleeps exactly the configured interval: the sleeps of `attsTrace` are `|as|` times `r` -/
theorem C15_resumes_sleeps (r : Nat) : ∀ (as : List Att) (t i : Nat) (o : Option Nat),
    (attsTrace r t i o as).filterMap (fun te => match te.2 with | .sleep d => some d | _ => none) =
      List.replicate as.length r := by
  intro as
  induction as with
  | nil => intro t i o; simp [attsTrace]
  | cons a l ih =>
    intro t i o
    have hc : (attClose (t + r) i a).filterMap (fun te => match te.2 with | .sleep d => some d | _ => none) = [] := by
      cases a with
      | fail d => simp [attClose]
      | lost legal te => by_cases h : te.ev = .eof <;> simp [attClose, h]
    have hr : (relTrace (t + r) o).filterMap (fun te => match te.2 with | .sleep d => some d | _ => none) = [] := by
      cases o <;> simp [relTrace]
    simp only [attsTrace, List.filterMap_append, hc, hr, ih, List.length_cons]
    simp [List.replicate_succ]

/-- **C15_resumes_recogniser_sound** — the driver op `s-c15-resumes` (= `resumesOfWorld`) answers with a skeleton only for
    worlds `C15_resumes` quantifies over (at least one attempt that fails or is established-then-lost with legal traffic
    before the loss, then a connection with legal traffic closed by the server), and its answer is the theorem's closed
    form for that world: what the harness compares the REAL runs with is the statement of the theorem, not a re-implementation. -/
theorem C15_resumes_recogniser_sound (r : Nat) (w : List Dial) (tr : Trace) (h : resumesOfWorld r w = some tr) :
    ∃ a as legal te body, w = (a :: as).map Att.toDial ++ [.established (legal ++ [te])] ∧ (∀ x ∈ a :: as, x.Ok) ∧
      (∀ e ∈ legal, isLegal e.ev = true) ∧ te.ev = .close body ∧ tr = resumesSkeleton r a as (legal ++ [te]) :=
  resumesOfWorld_sound r w tr h

end WS.Props.C15c
