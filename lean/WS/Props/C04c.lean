/-
  WS.Props.C04c — C04, per-fragment delivery (`fire_cont_frame=True`).
-/
import WS.Lemmas.Fragments
import WS.Props.C04b
namespace WS.Props.C04c
open WS WS.Model WS.Spec WS.Lemmas.RecvStrict WS.Lemmas.Parser WS.Lemmas.Stream WS.Lemmas.ShortWrites WS.Lemmas.Loop
open WS.Lemmas.Fragments WS.Props.C04b

/-- **C04_fragment** — with per-fragment delivery enabled, one `recv_data_frame()` call absorbs any number of
    pings (≤ 125 bytes, each answered) and pongs and returns the NEXT FRAGMENT INDIVIDUALLY: the frame exactly
    as the server sent it — its own opcode, its own payload (nothing accumulated, no UTF-8 judgement on a
    partial message), its own FIN flag — over any chunking of the bytes; it consumes exactly those frames and
    leaves the in-message flag as RFC 6455 §5.4 prescribes (`nextSt`), with no fragment data retained. -/
theorem C04_fragment (cs : List Frame) (hc : ∀ f ∈ cs, isPing f ∨ isPong f) (f : Frame) (st : Option Nat)
    (hf : FragOk st f) (c : Conn) (ws : List WireFrame) (tail : Bytes)
    (hr : Ready c) (hinv : FragInv c st) (hmap : ws.map frameOfWire = cs ++ [f])
    (hval : ∀ w ∈ ws, validate (frameOfWire w) c.skipUtf8 = none) (hd : DecodesTo (pending c) ws tail) :
    ∃ c', c.recvDataFrame false = (.ok (f.opcode, f), c') ∧ Ready c' ∧ pending c' = tail ∧
      FragInv c' (nextSt st f) ∧ c'.sock.wire = c.sock.wire ++ pongsWire c.keys cs := by
  obtain ⟨c', e, r, p, i, _, w, _⟩ := fragment_call cs hc f st hf c ws tail hr hinv hmap hval hd
  exact ⟨c', e, r, p, i, w⟩

/-- a sequence of fragments (each preceded by any run of pings/pongs) that is legal from sequencing state `st`. -/
inductive FragSeq : Option Nat → List (List Frame × Frame) → Prop
  | nil {st} : FragSeq st []
  | cons {st cs f rest} : (∀ g ∈ cs, isPing g ∨ isPong g) → FragOk st f → FragSeq (nextSt st f) rest →
      FragSeq st ((cs, f) :: rest)

/-- the frames on the wire for such a sequence. -/
def framesOf : List (List Frame × Frame) → List Frame
  | [] => []
  | (cs, f) :: rest => cs ++ [f] ++ framesOf rest

/-- **C04_fragments** — … and so on for ANY sequence of fragments of any number of messages: `k` successive
    calls return the `k` fragments individually, IN ORDER, each with its own payload and final flag. -/
theorem C04_fragments (frs : List (List Frame × Frame)) : ∀ (st : Option Nat) (c : Conn) (ws : List WireFrame) (tail : Bytes),
    FragSeq st frs → Ready c → FragInv c st → ws.map frameOfWire = framesOf frs →
    (∀ w ∈ ws, validate (frameOfWire w) c.skipUtf8 = none) → DecodesTo (pending c) ws tail →
    ∃ c', recvMsgs frs.length c = (frs.map (fun p => .ok (p.2.opcode, p.2)), c') ∧ Ready c' ∧ pending c' = tail := by
  induction frs with
  | nil =>
    intro st c ws tail _ hr _ hmap _ hd
    have : ws = [] := by simpa [framesOf] using hmap
    subst this
    cases hd
    exact ⟨c, rfl, hr, rfl⟩
  | cons p rest ih =>
    intro st c ws tail hs hr hi hmap hval hd
    obtain ⟨cs, f⟩ := p
    cases hs with
    | cons hc hf hrest =>
      simp only [framesOf] at hmap
      obtain ⟨ws1, ws2, hws, h1, h2⟩ := List.map_eq_append_iff.mp hmap
      subst hws
      obtain ⟨mid, d1, d2⟩ := decodesTo_append hd
      obtain ⟨c1, e1, r1, p1, i1, sk1, _, _⟩ := fragment_call cs hc f st hf c ws1 mid hr hi h1
        (fun w hw => hval w (List.mem_append_left _ hw)) d1
      obtain ⟨c2, e2, r2, p2⟩ := ih (nextSt st f) c1 ws2 tail hrest r1 i1 h2
        (by intro w hw; rw [sk1]; exact hval w (List.mem_append_right _ hw)) (by rw [p1]; exact d2)
      refine ⟨c2, ?_, r2, p2⟩
      simp only [recvMsgs, List.length_cons, e1, e2, List.map_cons]

/-- non-vacuity: TEXT(fin=0) "ab", PING, CONT(fin=1) "c" is a legal fragment sequence from the idle state. -/
example : FragSeq none
    [([], { fin := 0, rsv1 := 0, rsv2 := 0, rsv3 := 0, opcode := 1, mask := 0, data := [0x61, 0x62] }),
     ([{ fin := 1, rsv1 := 0, rsv2 := 0, rsv3 := 0, opcode := 9, mask := 0, data := [0x70] }],
      { fin := 1, rsv1 := 0, rsv2 := 0, rsv3 := 0, opcode := 0, mask := 0, data := [0x63] })] :=
  .cons (by simp) ⟨Or.inl rfl, Or.inl rfl⟩
    (.cons (by intro g hg; simp at hg; subst hg; exact Or.inl ⟨rfl, rfl, by decide⟩) ⟨Or.inr rfl, rfl⟩ .nil)

end WS.Props.C04c
