/-
  WS.Props.C03d — C03 at the message level: a receive timeout BETWEEN the frames of a message loses nothing.
-/
import WS.Lemmas.Prefix
import WS.Lemmas.Total
import WS.Props.C03b
namespace WS.Props.C03d
open WS WS.Model WS.Spec WS.Lemmas.RecvStrict WS.Lemmas.Frame WS.Lemmas.Parser WS.Lemmas.Stream WS.Lemmas.ShortWrites WS.Lemmas.Loop
open WS.Lemmas.Fragments WS.Lemmas.CloseTime WS.Lemmas.Prefix

theorem msgOp_pre {st st' : Option Nat} {pre : List Frame} (h : Pre st pre st') (suf : List Frame) :
    msgOp st (pre ++ suf) = msgOp st' suf := by
  induction h with
  | nil => rfl
  | @ping st st' f rest hp _ ih =>
    have : f.opcode = 9 := hp.1
    cases st <;> simpa [msgOp, firstDataOp, this] using ih
  | @pong st st' f rest hp _ ih =>
    have : f.opcode = 10 := hp
    cases st <;> simpa [msgOp, firstDataOp, this] using ih
  | @firstMore st' f rest ho hf _ ih =>
    have hn : ¬ (f.opcode = 9 ∨ f.opcode = 10) := by rcases ho with h | h <;> omega
    rw [← ih]
    simp [msgOp, firstDataOp, hn]
  | @contMore op st' f rest ho hf _ ih =>
    rw [← ih]
    simp [msgOp]

theorem lastFrame_append (pre suf : List Frame) (h : suf ≠ []) : lastFrame (pre ++ suf) = lastFrame suf := by
  induction pre with
  | nil => rfl
  | cons f rest ih =>
    cases hr : rest ++ suf with
    | nil => simp at hr; exact absurd hr.2 h
    | cons a b =>
      simp only [List.cons_append, hr, lastFrame]
      rw [← hr]; exact ih

theorem decodesTo_nil_eq {bs tail : Bytes} (h : DecodesTo bs [] tail) : bs = tail := by
  cases h; rfl

/-- the bytes `bs` arrive on a transport that had nothing left. -/
def arrive (c : Conn) (bs : Bytes) : Conn := { c with sock := { c.sock with inp := [.chunk bs] } }

/-- **C03_message_resume** — a receive timeout between the frames of a message (after any number of non-final fragments,
    answered pings and pongs: `pre`) leaves the connection usable and loses nothing: the interrupted
    `recv_data_frame()` raises TIMEOUT having answered the pings it read; when the rest of the message (`suf`) has
    arrived, the RETRIED call returns exactly what one uninterrupted call returns for the whole message (first opcode,
    in-order concatenation of all payloads — or the payload error), the two calls together have written exactly one pong
    per ping in order, and the reassembly state is idle again. Any fragmentation, any chunking of either part. -/
theorem C03_message_resume (pre suf : List Frame) (st st' : Option Nat) (hp : Pre st pre st') (hs : MsgFrames st' suf)
    (c : Conn) (acc : Bytes) (wsp wss : List WireFrame) (bs tail : Bytes)
    (hr : Ready c) (hinv : LoopInv c st acc) (htail : c.sock.tail = .timeout)
    (hmp : wsp.map frameOfWire = pre) (hms : wss.map frameOfWire = suf)
    (hvp : ∀ w ∈ wsp, validate (frameOfWire w) c.skipUtf8 = none) (hvs : ∀ w ∈ wss, validate (frameOfWire w) c.skipUtf8 = none)
    (hdp : DecodesTo (pending c) wsp []) (hds : DecodesTo bs wss tail) (hbs : bs ≠ []) :
    ∃ c1 c2,
      c.recvDataFrame false = (.error .timeout, c1) ∧
      (arrive c1 bs).recvDataFrame false =
        (deliver c.skipUtf8 (msgOp st (pre ++ suf)) (lastFrame (pre ++ suf)) (acc ++ msgPayload (pre ++ suf)), c2) ∧
      c2.sock.wire = c.sock.wire ++ pongsWire c.keys (pre ++ suf) ∧ pending c2 = tail ∧ LoopInv c2 none [] := by
  -- phase 1: the prefix is absorbed, then nothing is there
  have hlen : wsp.length = pre.length := by rw [← hmp, List.length_map]
  have hfu1 := decodesTo_len hdp
  have hsz := bytesOf_le_size c.sock.inp
  have hpl : (pending c).length = c.buf.length + (bytesOf c.sock.inp).length := by simp [pending]
  obtain ⟨extra, hextra⟩ : ∃ extra, c.sock.size + c.buf.length + 2 = (extra + 1) + pre.length := by
    refine ⟨c.sock.size + c.buf.length + 2 - pre.length - 1, ?_⟩
    simp only [List.length_nil] at hfu1
    unfold Sock.size at *
    omega
  obtain ⟨c2, e2, r2, d2, inv2, sk2, wire2, keys2, tl2⟩ := more_prefix pre st st' hp c acc wsp [] [] (extra + 1) hr hinv hmp hvp
    (by simpa using hdp)
  have hp2 : pending c2 = [] := decodesTo_nil_eq d2
  have hboth : c2.buf = [] ∧ bytesOf c2.sock.inp = [] := by
    have := hp2; simpa [pending] using this
  have hbuf2 : c2.buf = [] := hboth.1
  have hinp2 : c2.sock.inp = [] := WS.Lemmas.Total.chunks_bytes_nil r2.chunks hboth.2
  have hsil2 : Silent c2 := ⟨r2.live.1, r2.live.2, hbuf2, hinp2, by rw [tl2]; exact htail, r2.cleared.1⟩
  have e3 := recvFrame_silent c2 hsil2
  let c3 : Conn := { c2 with sock := { c2.sock with calls := c2.sock.calls + 1, recvSizes := 2 :: c2.sock.recvSizes,
                                                    clock := c2.sock.clock + c2.sock.timeoutMs.getD 0 } }
  have h1 : c.recvDataFrame false = (.error .timeout, c3) := by
    unfold Conn.recvDataFrame
    rw [hextra, e2]
    unfold Conn.recvDataFrameLoop
    rw [e3]
  -- phase 2: the rest arrives
  have hr4 : Ready (arrive c3 bs) :=
    ⟨r2.live, by intro e he; simp [arrive] at he; exact ⟨bs, he, hbs⟩, r2.cleared, r2.writable⟩
  have hinv4 : LoopInv (arrive c3 bs) st' (acc ++ msgPayload pre) := inv2
  have hp4 : pending (arrive c3 bs) = bs := by simp [arrive, pending, c3, hbuf2, bytesOf]
  have hfu2 : suf.length ≤ (arrive c3 bs).sock.size + (arrive c3 bs).buf.length + 2 := by
    rw [← hms, List.length_map]
    have := decodesTo_len (show DecodesTo (pending (arrive c3 bs)) wss tail by rw [hp4]; exact hds)
    have h2 := bytesOf_le_size (arrive c3 bs).sock.inp
    simp [pending] at this
    unfold Sock.size
    omega
  obtain ⟨c5, e5, r5, p5, inv5, wire5, sk5⟩ := loop_message suf st' hs (arrive c3 bs) (acc ++ msgPayload pre) wss tail _ hr4 hinv4 hms
    (by intro w hw; show validate (frameOfWire w) c2.skipUtf8 = none; rw [sk2]; exact hvs w hw) (by rw [hp4]; exact hds) hfu2
  have hne : suf ≠ [] := by cases hs <;> simp
  refine ⟨c3, c5, h1, ?_, ?_, p5, inv5⟩
  · unfold Conn.recvDataFrame
    rw [e5]
    have hsk : (arrive c3 bs).skipUtf8 = c.skipUtf8 := sk2
    rw [hsk, msgOp_pre hp suf, lastFrame_append pre suf hne, msgPayload_append, List.append_assoc]
  · rw [wire5]
    have hw4 : (arrive c3 bs).sock.wire = c2.sock.wire := rfl
    have hk4 : (arrive c3 bs).keys = c2.keys := rfl
    rw [hw4, hk4, wire2, keys2, pongsWire_append, List.append_assoc]

/-- non-vacuity, executed: text fragment "ab" (FIN=0) is there, the receive times out, then the final continuation "c"
    arrives; the retried call delivers (text, "abc"). -/
example :
    let c : Conn := { sock := { inp := [.chunk [0x01, 0x02, 0x61, 0x62]], tail := .timeout } }
    (match (c.recvDataFrame false).1 with | .error .timeout => true | _ => false) = true ∧
    (match ((arrive (c.recvDataFrame false).2 [0x80, 0x01, 0x63]).recvDataFrame false).1 with
      | .ok (op, f) => op == 1 && f.data == [0x61, 0x62, 0x63] | _ => false) = true := by decide +kernel

end WS.Props.C03d
