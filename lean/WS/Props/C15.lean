/- WS.Props.C15 — property theorems (placeholder during construction) -/
import WS.Model.App
import WS.Spec.AppTrace
namespace WS.Props.C15
end WS.Props.C15
