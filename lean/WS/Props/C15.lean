/-
  WS.Props.C15 — property theorems for C15 (automatic reconnection restores service after loss and stops
  on request), built-in dispatcher loop.
  `C15_retry` / `C15_interval` / `C15_stops_server_close`: exact network skeleton and callback trace of a run
  in which the first attempt and any number of further attempts fail (refused or rejected) before a
  connection is established and finally closed by the server.  `C15_stops`: once `keep_running` is cleared
  (server close frame through teardown, or the application's close()) the reconnect loop dials no more --
  for every state.  Established-then-lost connections followed by a reconnect, the ping-timeout loss and the
  external dispatcher are covered by the correspondence runs only (see the `example` for one such world).
-/
import WS.Lemmas.AppReconn
import WS.Lemmas.AppHoare
import WS.Lemmas.AppRes
namespace WS.Props.C15
open WS WS.Model.App WS.Lemmas.App
open WS.Spec.AppTrace (cbOnly expectedConn reportTrace)

/-- **C15_retry / C15_interval / C15_stops (server close)** — reconnect interval `r > 0`, callbacks that return
    or raise, any subset of callbacks; the first attempt `d` and then every attempt in `ds` (any number) is
    refused or rejected; the next one is established, carries the legal traffic `legal` and is closed by the
    server with `body`.  Then:
    * network skeleton: first attempt at t₀; each further attempt is preceded by `sleep r` and happens exactly
      `r` later (`retryTrace`), every failed socket is released before the next dial; the successful dial is
      attempt number `|ds| + 1` at `t₀ + (|ds|+1)·r`; after the server's close frame there is no further dial:
      the run returns (True: an error was reported);
    * callbacks: the first failure is reported once to on_error; nothing is called during the retries; on the
      new connection on_reconnect (on_open if not set) fires first and the traffic is delivered as in C13;
      on_close is called once, at the end, with the close frame's code and reason. -/
theorem C15_retry (c : Cfg) (hq : Quiet c) (hacc : argsAccepted c.iv c.to = true) (hiv : c.iv = 0)
    (hr : c.reconnect ≠ 0) (s0 : St) (d : Dial) (ds : List Dial) (legal : List TEv) (te : TEv) (body : Bytes)
    (hs0 : s0.sock = none) (hp0 : s0.ping = none)
    (hd : s0.dials = (d :: ds) ++ [.established (legal ++ [te])])
    (hfails : ∀ x ∈ d :: ds, isFail x = true)
    (hleg : ∀ e ∈ legal, isLegal e.ev = true) (hk : te.ev = .close body)
    (hfuel : need0 (selectTimeout c) (legal ++ [te]) + 1 ≤ c.fuel) (hfuel2 : ds.length + 2 ≤ c.fuel)
    (hz : endTime (s0.now + (ds.length + 1) * c.reconnect) (legal ++ [te]) ≤ c.horizon) :
    let r := c.reconnect
    let tK := s0.now + ds.length * r
    let iK := s0.nextIdx + 1 + ds.length
    let tEnd := endTime (tK + r) (legal ++ [te])
    (runForeverO c s0).2 = .returned true ∧
    netOnly (runForever c s0).trace =
      netOnly s0.trace ++ [(s0.now, .dial s0.nextIdx), (s0.now, .sockClosed s0.nextIdx)] ++
        retryTrace r s0.now (s0.nextIdx + 1) ds.length ++
        [(tK, .sleep r), (tK + r, .dial iK), (tEnd, .sockDropped iK), (tEnd, .returned true)] ∧
    ∃ calls1 calls2, cbOnly (runForever c s0).trace =
      cbOnly s0.trace ++ cbTrace c s0.calls s0.now .onError [.exn (dialExn d)] ++
        expectedConn c.has c.plan calls1 (tK + r) (openCb c true) (legal ++ [te]) ++
        cbTrace c calls2 tEnd .onClose (closeArgs c (some body)) := by
  intro r tK iK tEnd
  have hrun := reconnect_run c hq hacc hiv hr s0 d ds legal te body hs0 hp0 hd hfails hleg hk hfuel hfuel2 hz
  obtain ⟨a1, a2, a3, a4, a5⟩ := afterFails_net c.reconnect ds
    (firstFail c (prologue s0) d (ds ++ [.established (legal ++ [te])]))
  have hnowK : (sleepStep c.reconnect (afterFails c.reconnect
      (firstFail c (prologue s0) d (ds ++ [.established (legal ++ [te])])) ds)).now = tK + r := by
    simp only [sleepStep, a2]; rfl
  have hterm : isTerm te.ev = true := by simp [hk, isTerm]
  refine ⟨by rw [hrun], ?_, ?_⟩
  · unfold runForever
    rw [hrun]
    simp only [St.emit, closeState, netOnly_append, runLegal_net, netOnly_cbTrace, List.append_nil]
    simp only [enterR, sleepStep, netOnly_append, netOnly_cbTrace, a1, List.append_nil, a2, a3]
    simp only [firstFail, prologue, netOnly_append, netOnly_cbTrace, List.append_nil]
    simp [netOnly, List.append_assoc, tK, iK, tEnd, r]
  · obtain ⟨h1, h2, _, _⟩ := runLegal_spec c legal (enterR c (sleepStep c.reconnect (afterFails c.reconnect
      (firstFail c (prologue s0) d (ds ++ [.established (legal ++ [te])])) ds)) true (legal ++ [te]) []) hleg rfl
    refine ⟨cbCalls c s0.calls .onError, (runLegal c (enterR c (sleepStep c.reconnect (afterFails c.reconnect
      (firstFail c (prologue s0) d (ds ++ [.established (legal ++ [te])])) ds)) true (legal ++ [te]) []) legal).calls, ?_⟩
    unfold runForever
    rw [hrun]
    simp only [St.emit, closeState, cbOnly_append, cbOnly_cbTrace, h1]
    simp only [enterR, sleepStep, cbOnly_append, cbOnly_cbTrace, a4, a2, a5]
    simp only [firstFail, prologue, cbOnly_append, cbOnly_cbTrace]
    simp only [expectedConn, expectedDeliveries_term c.has _ legal te hleg hterm, reportTrace_append,
      List.append_assoc]
    have e1 : cbOnly [(s0.now, Ev.dial s0.nextIdx), (s0.now, Ev.sockClosed s0.nextIdx)] = [] := rfl
    have e2 : ∀ t i, cbOnly [(t, Ev.dial i)] = [] := fun _ _ => rfl
    have e3 : ∀ t, cbOnly [(t, Ev.sleep c.reconnect)] = [] := fun _ => rfl
    have e4 : ∀ t i, cbOnly [(t, Ev.wrote Gen.opcodeClose (beN 2 Gen.statusNormal)), (t, Ev.sockDropped i)] = [] :=
      fun _ _ => rfl
    have e5 : ∀ t b, cbOnly [(t, Ev.returned b)] = [] := fun _ _ => rfl
    simp only [e1, e2, e3, e4, e5, List.nil_append, List.append_nil]
    rw [cbTrace_eq_report c (cbCalls c s0.calls .onError) _ (openCb c true) [],
      cbCalls_eq_spec c (cbCalls c s0.calls .onError) (tK + r) (openCb c true) []]

/-- **C15_interval** — in `retryTrace` the k-th retry (k = 1, 2, …) is dialled at exactly `t + k·r`, on socket
    `i + k - 1`, right after a `sleep r` that started at `t + (k-1)·r`. -/
theorem C15_interval (r t i : Nat) : ∀ (n k : Nat), k < n →
    (retryTrace r t i n)[3 * k]? = some (t + k * r, .sleep r) ∧
    (retryTrace r t i n)[3 * k + 1]? = some (t + (k + 1) * r, .dial (i + k)) ∧
    (retryTrace r t i n)[3 * k + 2]? = some (t + (k + 1) * r, .sockClosed (i + k)) := by
  intro n
  induction n generalizing t i with
  | zero => intro k hk; omega
  | succ m ih =>
    intro k hk
    cases k with
    | zero => simp [retryTrace]
    | succ j =>
      have := ih (t + r) (i + 1) j (by omega)
      have e1 : 3 * (j + 1) = 3 * j + 3 := by omega
      have e2 : t + r + j * r = t + (j + 1) * r := by rw [Nat.add_mul]; omega
      have e3 : t + r + (j + 1) * r = t + (j + 1 + 1) * r := by rw [Nat.add_mul (j + 1) 1]; omega
      have e4 : i + 1 + j = i + (j + 1) := by omega
      simp only [retryTrace, e1, List.cons_append, List.nil_append]
      simp only [List.getElem?_cons_succ]
      rw [← e2, ← e3, ← e4]
      exact this

/-- **C15_stops** — for every state, configuration and plan:
    (a) once `keep_running` is cleared the reconnect loop returns without sleeping or dialling;
    (b) a close frame from the server clears it (teardown runs; then `Qst`: loop stopped, socket and ping
        thread gone) unless the model is cut while waiting;
    (c) the application's close() clears it.
    Hence neither a server close frame nor close() is followed by a connection attempt. -/
theorem C15_stops :
    (∀ (c : Cfg) (n : Nat) (s : St), s.keepRunning = false → reconnectLoop c (n + 1) s = (s, .ok ())) ∧
    (∀ (c : Cfg) (s : St) (body : Bytes), CloseOk c → s.hasDoneTeardown = false →
        (handleEv c s (.close body)).2.isHalt = true ∨ Qst (handleEv c s (.close body)).1) ∧
    (∀ (c : Cfg) (s : St), (appClose c s).1.keepRunning = false) := by
  refine ⟨fun c n s h => reconnectLoop_Q c n s h, ?_, fun c s => (appClose_frame c s).kr⟩
  intro c s body hco hp
  simp only [handleEv, gen_closeToTeardown, ↓reduceIte, asRead_fst, asRead_halt]
  have h4 : (if ({ s with sock := s.sock.map fun (w : WSock) => { w with connected := false } } : St).writable = true
      then ({ s with sock := s.sock.map fun (w : WSock) => { w with connected := false } } : St).emit
        (.wrote Gen.opcodeClose (beN 2 Gen.statusNormal))
      else { s with sock := s.sock.map fun (w : WSock) => { w with connected := false } }).hasDoneTeardown = false := by
    split <;> simpa using hp
  rcases teardown_P c hco _ (some body) h4 with td | ⟨q, _, _, _⟩
  · exact Or.inl td
  · exact Or.inr q

/-- **C15_resources** — for EVERY world (any dial outcomes and server histories), every callback plan (callbacks may
    return, raise, call close() or raise KeyboardInterrupt at any invocation -- also on_error / on_close),
    every schedule of the ping thread, keepalive and reconnection on or off, plain or TLS-style: started on
    an object without socket and ping thread (as after construction or after any run that returned), a call
    of run_forever never has more than one transport open and never more than one ping thread alive, at any
    point of its trace; and the counts at the end agree with the object's state. -/
theorem C15_resources (c : Cfg) (s0 : St) (h : RI s0) (hs : s0.sock = none) (hp : s0.ping = none) :
    Spec.AppTrace.resourcesBounded (runForever c s0).trace 0 0 = true ∧ RI (runForever c s0) :=
  ⟨(ri_runForever c s0 h hs hp).bnd, ri_runForever c s0 h hs hp⟩

/-- a freshly constructed object satisfies the hypotheses of `C15_resources`, whatever the world -/
theorem C15_resources_fresh (c : Cfg) (w : List Dial) :
    Spec.AppTrace.resourcesBounded (runForever c { dials := w }).trace 0 0 = true :=
  (C15_resources c { dials := w } ⟨rfl, rfl, rfl⟩ rfl rfl).1

/-- after a run that returned, nothing is left: no open transport, no live ping thread (counted on the
    trace), so the next run starts from the hypotheses of `C15_resources` again -/
theorem C15_resources_after_return (c : Cfg) (hco : CloseOk c) (s0 : St) (h : RI s0) (hs : s0.sock = none)
    (hp : s0.ping = none) (b : Bool) (hr : (runForeverO c s0).2 = .returned b) :
    Spec.AppTrace.live (runForever c s0).trace = 0 ∧ Spec.AppTrace.livePings (runForever c s0).trace = 0 := by
  have r := ri_runForever c s0 h hs hp
  obtain ⟨c1, c2, _⟩ := returned_clean c hco s0 b hr
  exact ⟨by rw [r.lv]; simp [openSock, c1, b2i], by rw [r.pg, c2]; simp [b2i]⟩

/-- a world with an established connection that is lost (end of stream), a refused retry and a second
    connection closed by the server, reconnect = 1 s: network skeleton and callbacks (evaluated by the kernel) -/
example :
    let c : Cfg := { has := fun _ => true, plan := fun _ => [], iv := 0, to := none, payload := [],
                     reconnect := 1024, ssl := false, horizon := 100000, fuel := 50 }
    let w : St := { dials := [.established [⟨100, false, .message 2 [1] false⟩, ⟨100, false, .eof⟩], .refused,
                              .established [⟨70, false, .message 1 [0x61] false⟩, ⟨40, false, .close [3, 232]⟩]] }
    netOnly (runForever c w).trace =
      [(0, .dial 0), (200, .sockClosed 0), (200, .sleep 1024), (1224, .dial 1), (1224, .sockClosed 1),
       (1224, .sleep 1024), (2248, .dial 2), (2358, .sockDropped 2), (2358, .returned true)] ∧
    (cbs (runForever c w)).map (·.1) =
      [.onOpen, .onData, .onMessage, .onError, .onReconnect, .onData, .onMessage, .onClose] := by
  decide

end WS.Props.C15
