/-
  WS.Props.C04 — fragmented messages are reassembled in order, undisturbed by control frames.
  (theorems added below as they are proved; the correspondence runs do not depend on them)
-/
import WS.Model.Conn
namespace WS.Props.C04
open WS WS.Model

/-- `continuous_frame.add` on a first fragment records its opcode and payload; on later fragments
    appends the payload and keeps the first opcode. -/
theorem add_keeps_first_opcode (c : Conn) (f : Frame) (op : Nat) (d : Bytes) (h : c.contData = some (op, d)) :
    (c.contAdd f).contData = some (op, d ++ f.data) := by
  unfold Conn.contAdd
  simp only [h]
  split <;> rfl

end WS.Props.C04
