/-
  WS.Props.C04 — fragmented messages are reassembled in order, undisturbed by control frames.
-/
import WS.Lemmas.Loop
namespace WS.Props.C04
open WS WS.Model WS.Spec WS.Lemmas.RecvStrict WS.Lemmas.Parser WS.Lemmas.Stream WS.Lemmas.ShortWrites WS.Lemmas.Loop

/-- `continuous_frame.add` on a later fragment appends the payload and keeps the first opcode. -/
theorem add_keeps_first_opcode (c : Conn) (f : Frame) (op : Nat) (d : Bytes) (h : c.contData = some (op, d)) :
    (c.contAdd f).contData = some (op, d ++ f.data) := by
  unfold Conn.contAdd
  simp only [h]
  split <;> rfl

theorem fuel_enough (c : Conn) (ws : List WireFrame) (tail : Bytes) (hd : DecodesTo (pending c) ws tail) :
    ws.length ≤ c.sock.size + c.buf.length + 2 := by
  have h1 := decodesTo_len hd
  have h2 := bytesOf_le_size c.sock.inp
  simp [pending] at h1
  unfold Sock.size
  omega

/-- **C04_reassembly** — for EVERY message: any number of fragments (empty ones included), text or binary,
    any number of pings (≤ 125 bytes) and pongs before every fragment, delivered over ANY chunking of the
    byte stream: one `recv_data_frame()` call on a connection with an idle reassembly state returns the
    message ONCE, with the opcode of its FIRST fragment and the IN-ORDER concatenation of all fragment
    payloads (or the payload error for a text message that is not UTF-8, unless validation is off), consumes
    exactly the message's frames (`tail` is what remains pending), and leaves the reassembly state idle again —
    which is what lets consecutive messages be delivered in the order sent. -/
theorem C04_reassembly (fs : List Frame) (hm : MsgFrames none fs)
    (c : Conn) (ws : List WireFrame) (tail : Bytes)
    (hr : Ready c) (hidle : LoopInv c none []) (hmap : ws.map frameOfWire = fs)
    (hval : ∀ w ∈ ws, validate (frameOfWire w) c.skipUtf8 = none)
    (hd : DecodesTo (pending c) ws tail) :
    ∃ c', c.recvDataFrame false =
            (deliver c.skipUtf8 (firstDataOp fs) (lastFrame fs) (msgPayload fs), c') ∧
      Ready c' ∧ pending c' = tail ∧ LoopInv c' none [] := by
  have hfu : fs.length ≤ c.sock.size + c.buf.length + 2 := by
    rw [← hmap, List.length_map]; exact fuel_enough c ws tail hd
  obtain ⟨c', e, r, p, inv, _, _⟩ := loop_message fs none hm c [] ws tail _ hr hidle hmap hval hd hfu
  exact ⟨c', by simpa [Conn.recvDataFrame, msgOp] using e, r, p, inv⟩

/-- non-vacuity: a text message "ab"+"c" cut in two fragments with a ping in between is a `MsgFrames`. -/
example : MsgFrames none
    [{ fin := 0, rsv1 := 0, rsv2 := 0, rsv3 := 0, opcode := 1, mask := 0, data := [0x61, 0x62] },
     { fin := 1, rsv1 := 0, rsv2 := 0, rsv3 := 0, opcode := 9, mask := 0, data := [0x70] },
     { fin := 1, rsv1 := 0, rsv2 := 0, rsv3 := 0, opcode := 0, mask := 0, data := [0x63] }] :=
  .firstMore (Or.inl rfl) rfl (.ping ⟨rfl, rfl, by decide⟩ (.contLast rfl rfl))

example : msgPayload
    [{ fin := 0, rsv1 := 0, rsv2 := 0, rsv3 := 0, opcode := 1, mask := 0, data := [0x61, 0x62] },
     { fin := 1, rsv1 := 0, rsv2 := 0, rsv3 := 0, opcode := 9, mask := 0, data := [0x70] },
     { fin := 1, rsv1 := 0, rsv2 := 0, rsv3 := 0, opcode := 0, mask := 0, data := [0x63] }] = [0x61, 0x62, 0x63] := by
  decide

/-- generated fact: iteration is receiving — `__iter__` is exactly `while True: yield self.recv()`, `__next__` is
    `return self.recv()`, `next` is `return self.__next__()`; the model's one receive operation stands for all of them (the
    correspondence runs every other session through these spellings). -/
theorem iteration_is_recv : Gen.iterationIsRecv = true := by decide

end WS.Props.C04
