/-
  WS.Props.C07b — C07, "before it reads any further".
-/
import WS.Lemmas.Exact
import WS.Props.C07
namespace WS.Props.C07b
open WS WS.Model WS.Spec WS.Lemmas.RecvStrict WS.Lemmas.Parser WS.Lemmas.Stream WS.Lemmas.Loop WS.Lemmas.ShortWrites WS.Lemmas.Exact

theorem validate_ping_len (f : Frame) (skip : Bool) (hop : f.opcode = 9) (hv : validate f skip = none) :
    f.data.length < 126 := by
  have k : Gen.opcodePing = 9 ∧ Gen.opcodeClose = 8 ∧ Gen.opcodePong = 10 ∧ Gen.length7 = 126 ∧ Gen.opcodes = [0, 1, 2, 8, 9, 10] := by decide
  obtain ⟨k9, k8, k10, k7, kops⟩ := k
  by_cases hl : f.data.length < 126
  · exact hl
  · exfalso
    unfold validate at hv
    rw [k9, k8, k10, k7, kops, hop] at hv
    have hge : decide (f.data.length ≥ 126) = true := by simp; omega
    simp only [hge, Bool.or_true] at hv
    simp only [show ((9 : Nat) == 8) = false by decide, show ((9 : Nat) == 9) = true by decide, Bool.false_or, Bool.true_or,
      Bool.true_and, if_true, show ([0, 1, 2, 8, 9, 10].contains 9) = true by decide, Bool.not_true, Bool.false_eq_true, if_false] at hv
    split at hv <;> simp at hv

/-- **C07_prompt** — "before it reads any further": when the receive loop has read a ping (≤ 125 bytes) from a
    transport whose buffer was empty, then at the moment it writes the pong it has taken from the transport
    EXACTLY the bytes up to the end of that ping (`c1.buf = []` and the transport still holds precisely the
    bytes that follow the ping); the pong is then written in full, as one frame, with the transport's unread
    bytes untouched. For every chunking and every short-write pattern. -/
theorem C07_prompt (c : Conn) (hr : Ready c) (hbuf : c.buf = []) (w : WireFrame) (rest : Bytes)
    (hdec : decode (pending c) = .frame w rest) (hv : validate (frameOfWire w) c.skipUtf8 = none)
    (hping : (frameOfWire w).opcode = 9) :
    ∃ c1 wp c2, c.recvFrame = (.ok (frameOfWire w), c1) ∧ c1.buf = [] ∧ bytesOf c1.sock.inp = rest ∧
      c1.pong (frameOfWire w).data = (.ok wp.length, c2) ∧ c2.sock.wire = c.sock.wire ++ wp ∧
      bytesOf c2.sock.inp = rest ∧ c2.buf = [] := by
  obtain ⟨c1, e1, r1, d1, s1⟩ := step_recv c hr w [] rest (.cons hdec (.nil rest)) hv
  have hb1 := recvFrame_exact c hbuf _ c1 e1
  have hp1 : pending c1 = rest := by cases d1; rfl
  have hin1 : bytesOf c1.sock.inp = rest := by simpa [pending, hb1] using hp1
  -- a legal ping has at most 125 bytes
  have hlen : (frameOfWire w).data.length < 2 ^ 63 := by
    have := validate_ping_len _ _ hping hv
    omega
  have hop : Gen.opcodePong ∈ Gen.opcodes := by decide
  obtain ⟨wp, c2, _, e2, hwire, _, sr2⟩ := send_ok c1 (frameOfWire w).data Gen.opcodePong r1.writable hop hlen
  refine ⟨c1, wp, c2, e1, hb1, hin1, e2, ?_, ?_, ?_⟩
  · rw [hwire, wire_sameLoop s1]
  · rw [sr2.2.1]; exact hin1
  · rw [sr2.1]; exact hb1

end WS.Props.C07b
