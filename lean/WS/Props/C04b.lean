/-
  WS.Props.C04b — C04, sequences of messages.
-/
import WS.Props.C04
namespace WS.Props.C04b
open WS WS.Model WS.Spec WS.Lemmas.RecvStrict WS.Lemmas.Parser WS.Lemmas.Stream WS.Lemmas.ShortWrites WS.Lemmas.Loop

theorem decodesTo_append {bs : Bytes} {ws1 ws2 : List WireFrame} {tail : Bytes} :
    DecodesTo bs (ws1 ++ ws2) tail → ∃ mid, DecodesTo bs ws1 mid ∧ DecodesTo mid ws2 tail := by
  induction ws1 generalizing bs with
  | nil => intro h; exact ⟨bs, .nil bs, h⟩
  | cons w ws ih =>
    intro h
    cases h with
    | cons hd hrest =>
      obtain ⟨mid, h1, h2⟩ := ih hrest
      exact ⟨mid, .cons hd h1, h2⟩

/-- call `recv_data_frame()` `k` times. -/
def recvMsgs : Nat → Conn → List (Except Exn (Nat × Frame)) × Conn
  | 0, c => ([], c)
  | k + 1, c =>
    let (r, c1) := c.recvDataFrame false
    let (rs, c2) := recvMsgs k c1
    (r :: rs, c2)

/-- **C04_messages** — consecutive messages are delivered in the order they were sent: for ANY sequence of
    messages (each with any fragmentation and interleaved pings/pongs), over any chunking, `k` successive
    `recv_data_frame()` calls return the `k` messages in order, each once, each reassembled. Induction on the
    sequence; `C04_reassembly` is the step (it restores the idle state and consumes exactly one message). -/
theorem C04_messages (msgs : List (List Frame)) : ∀ (c : Conn) (ws : List WireFrame) (tail : Bytes),
    (∀ fs ∈ msgs, MsgFrames none fs) → Ready c → LoopInv c none [] → ws.map frameOfWire = msgs.flatten →
    (∀ w ∈ ws, validate (frameOfWire w) c.skipUtf8 = none) → DecodesTo (pending c) ws tail →
    ∃ c', recvMsgs msgs.length c =
            (msgs.map (fun fs => deliver c.skipUtf8 (firstDataOp fs) (lastFrame fs) (msgPayload fs)), c') ∧
      Ready c' ∧ pending c' = tail ∧ LoopInv c' none [] := by
  induction msgs with
  | nil =>
    intro c ws tail _ hr hi hmap _ hd
    have : ws = [] := by simpa using hmap
    subst this
    cases hd
    exact ⟨c, rfl, hr, rfl, hi⟩
  | cons fs rest ih =>
    intro c ws tail hm hr hi hmap hval hd
    simp only [List.flatten_cons] at hmap
    obtain ⟨ws1, ws2, hws, h1, h2⟩ := List.map_eq_append_iff.mp hmap
    subst hws
    obtain ⟨mid, d1, d2⟩ := decodesTo_append hd
    obtain ⟨c1, e1, r1, p1, i1⟩ := WS.Props.C04.C04_reassembly fs (hm fs List.mem_cons_self) c ws1 mid hr hi h1
      (fun w hw => hval w (List.mem_append_left _ hw)) d1
    have hskip : c1.skipUtf8 = c.skipUtf8 := by
      have hfu : fs.length ≤ c.sock.size + c.buf.length + 2 := by
        rw [← h1, List.length_map]; exact WS.Props.C04.fuel_enough c ws1 mid d1
      obtain ⟨c1', e1', _, _, _, _, sk⟩ := loop_message fs none (hm fs List.mem_cons_self) c [] ws1 mid _ hr hi h1
        (fun w hw => hval w (List.mem_append_left _ hw)) d1 hfu
      have : c1' = c1 := by
        have ea : (c.recvDataFrame false).2 = c1' := by simp [Conn.recvDataFrame, e1']
        have eb : (c.recvDataFrame false).2 = c1 := by rw [e1]
        rw [← ea, eb]
      rw [← this]; exact sk
    obtain ⟨c2, e2, r2, p2, i2⟩ := ih c1 ws2 tail (fun x hx => hm x (List.mem_cons_of_mem _ hx)) r1 i1 h2
      (by intro w hw; rw [hskip]; exact hval w (List.mem_append_right _ hw)) (by rw [p1]; exact d2)
    refine ⟨c2, ?_, r2, p2, i2⟩
    simp only [recvMsgs, List.length_cons, e1, e2, List.map_cons, hskip]

end WS.Props.C04b
