/-
  WS.Props.C12 — each send puts one intact frame on the wire under partial writes and threads.
-/
import WS.Lemmas.ShortWrites
import WS.Lemmas.Threads
import WS.Props.C01
namespace WS.Props.C12
open WS WS.Model WS.Lemmas.ShortWrites

/-- generated lock-scope facts: the write loop of `send_frame` is lexically inside `with self.lock`,
    `recv()` holds `readlock` around `recv_data`, `recv_frame` holds the frame-buffer lock. -/
theorem lock_scopes : Gen.sendLoopUnderLock = true ∧ Gen.recvUnderReadlock = true ∧ Gen.frameUnderLock = true := by
  decide

/-- … and "the default thread-safe configuration": both ways of building the object — `WebSocket()` and the documented
    factory `create_connection()` — install real locks unless the caller says otherwise (generated from the defaults). -/
theorem locks_by_default : Gen.multithreadDefaultInit = true ∧ Gen.multithreadDefaultFactory = true ∧
    Gen.appSockMultithread = true := by
  decide

/-- **C12_short_writes** — however the transport accepts bytes (any cyclic pattern of accepted sizes, each
    clipped to 1..remaining), the write loop returns normally and the bytes added to the wire are exactly
    `data` — for every `data`, every pattern, every starting state of an open socket. -/
theorem C12_short_writes (c : Conn) (data : Bytes) (hw : Writable c) :
    ∃ c', Conn.sendLoop (data.length + 1) c data = (none, c') ∧ c'.sock.wire = c.sock.wire ++ data ∧ Writable c' :=
  sendLoop_writes_all (data.length + 1) c data hw (by omega)

/-- **C12_one_frame_per_send** — `send_frame` of any formattable frame on a writable socket returns the
    length of the formatted frame and adds exactly the formatted frame to the wire. -/
theorem C12_one_frame_per_send (c : Conn) (f : Frame) (w : Bytes) (hw : Writable c)
    (hf : format f (c.keys.headD [0, 0, 0, 0]) = .ok w) :
    ∃ c', c.sendFrame f = (.ok w.length, c') ∧ c'.sock.wire = c.sock.wire ++ w := by
  unfold Conn.sendFrame
  simp only [hf]
  have hw' : Writable (if f.mask != 0 then { c with keys := c.keys.tail, keyDraws := c.keyDraws + 1 } else c) := by
    split <;> simpa [Writable] using hw
  obtain ⟨c', h1, h2, _⟩ := C12_short_writes _ w hw'
  rw [h1]
  refine ⟨c', rfl, ?_⟩
  rw [h2]
  split <;> rfl

open WS.Model.Threads WS.Lemmas.Threads in
/-- **C12_senders** — for any number `n` of threads, any frames, any short-write pattern and **every
    schedule** (list of thread ids < n): whenever the lock is free — in particular when all have finished —
    the wire is exactly the concatenation of whole frames of the threads that completed, in completion
    order; and while a thread holds the lock the wire is that plus a prefix of the holder's frame.
    Completed threads are listed once each. -/
theorem C12_senders (n : Nat) (frames : Nat → Bytes) (acc : Nat → Nat) (sched : List Nat)
    (hs : ∀ i ∈ sched, i < n) :
    let s := run Gen.sendLoopUnderLock frames acc (init frames) sched
    s.order.Nodup ∧ (∀ i ∈ s.order, i < n) ∧ (∀ i, s.pc i = .done ↔ i ∈ s.order) ∧
    (s.holder = none → s.wire = (s.order.map frames).flatten) ∧
    (∀ h, s.holder = some h → ∃ pre rest, frames h = pre ++ rest ∧ s.wire = (s.order.map frames).flatten ++ pre) := by
  rw [lock_scopes.1]
  intro s
  have hinv := inv_run n frames acc sched hs (init frames) (inv_init n frames)
  refine ⟨hinv.nodup, hinv.bound, hinv.doneIff, fun h => (hinv.free h).1, ?_⟩
  intro h hh
  obtain ⟨pre, rest, _, hfr, hw, _⟩ := hinv.held h hh
  exact ⟨pre, rest, hfr, hw⟩

open WS.Model.Threads WS.Lemmas.Threads in
/-- when all `n` threads are done the lock is free, so the wire is a serial order of whole frames. -/
theorem C12_senders_all_done (n : Nat) (frames : Nat → Bytes) (acc : Nat → Nat) (sched : List Nat)
    (hs : ∀ i ∈ sched, i < n)
    (hdone : ∀ i, i < n → (run Gen.sendLoopUnderLock frames acc (init frames) sched).pc i = .done) (hn : 0 < n) :
    let s := run Gen.sendLoopUnderLock frames acc (init frames) sched
    s.wire = (s.order.map frames).flatten ∧ s.order.Nodup ∧ (∀ i, i < n ↔ i ∈ s.order) := by
  intro s
  have hall := C12_senders n frames acc sched hs
  simp only [] at hall
  obtain ⟨hnd, hb, hd, hfree, hheld⟩ := hall
  have hinv := inv_run n frames acc sched hs (init frames) (inv_init n frames)
  rw [← lock_scopes.1] at hinv
  have hhold : s.holder = none := by
    cases hh : s.holder with
    | none => rfl
    | some h =>
      obtain ⟨pre, rest, hp, _, _, _⟩ := hinv.held h hh
      have hlt : h < n := by
        -- the holder is a scheduled thread: it is not `start`, and only scheduled threads move
        by_cases hlt : h < n
        · exact hlt
        · exfalso
          have : ∀ (sc : List Nat) (st : St), (∀ i ∈ sc, i < n) → st.pc h = .start →
              (run Gen.sendLoopUnderLock frames acc st sc).pc h = .start := by
            intro sc
            induction sc with
            | nil => intro st _ h0; simpa [run] using h0
            | cons a rest' ih =>
              intro st hsc h0
              simp only [run, List.foldl]
              apply ih _ (fun j hj => hsc j (List.mem_cons_of_mem _ hj))
              have hane : h ≠ a := by
                intro hha; subst hha; exact hlt (hsc _ List.mem_cons_self)
              unfold step
              split
              · split
                · split
                  · simp only [upd_other _ _ _ _ hane]; exact h0
                  · exact h0
                · simp only [upd_other _ _ _ _ hane]; exact h0
              · split
                · simp only [upd_other _ _ _ _ hane]; exact h0
                · simp only [upd_other _ _ _ _ hane]; exact h0
              · exact h0
          have h0 := this sched (init frames) hs rfl
          have : s.pc h = .start := h0
          rw [hp] at this
          cases this
      have := hdone h hlt
      have hp' : s.pc h = .writing rest := hp
      rw [hp'] at this
      cases this
  refine ⟨hfree hhold, hnd, ?_⟩
  intro i
  constructor
  · intro hi; exact (hd i).mp (hdone i hi)
  · intro hi; exact hb i hi

end WS.Props.C12
