/-
  WS.Props.C05 — frames the RFC forbids are rejected with a protocol error.
-/
import WS.Lemmas.Frame
namespace WS.Props.C05
open WS WS.Spec WS.Model

theorem table_in_range : ∀ x ∈ Gen.validCloseStatus, 1000 ≤ x ∧ x ≤ 1014 := by decide

theorem table_block : ∀ c, c < 1015 → 1000 ≤ c → isValidCloseStatus c = wireCode c := by
  decide +kernel

theorem range_consts : Gen.closeRangeLo = 3000 ∧ Gen.closeRangeHi = 5000 := by decide

/-- **C05_close_codes** — table obligation over the generated `VALID_CLOSE_STATUS` tuple and the two
    range literals of `_is_valid_close_status`: for *every* number (in particular all 65536 values a
    close frame can carry) the code's test agrees with the RFC 6455 §7.4 / IANA rule written as ranges:
    1000–1014 except 1004/1005/1006, and 3000–4999. -/
theorem C05_close_codes (c : Nat) : isValidCloseStatus c = wireCode c := by
  by_cases h : 1000 ≤ c ∧ c < 1015
  · exact table_block c h.2 h.1
  · have hnot : Gen.validCloseStatus.contains c = false := by
      cases hc : Gen.validCloseStatus.contains c with
      | false => rfl
      | true =>
        have hm : c ∈ Gen.validCloseStatus := by simpa using hc
        have := table_in_range c hm
        omega
    unfold isValidCloseStatus wireCode
    rw [hnot, range_consts.1, range_consts.2]
    by_cases h3 : 3000 ≤ c ∧ c ≤ 4999
    · have a : decide (3000 ≤ c) = true := by simpa using h3.1
      have b : decide (c < 5000) = true := by simp; omega
      have b' : decide (c ≤ 4999) = true := by simpa using h3.2
      simp [a, b, b']
    · have : (decide (3000 ≤ c) && decide (c < 5000)) = false := by
        simp; omega
      have this' : (decide (3000 ≤ c) && decide (c ≤ 4999)) = false := by
        simp; omega
      have h1 : (decide (1000 ≤ c) && decide (c ≤ 1014)) = false := by
        simp; omega
      simp [this, this', h1]

/-- generated fact: iteration is receiving — `__iter__` is exactly `while True: yield self.recv()`, `__next__` is
    `return self.recv()`, `next` is `return self.__next__()`; the model's one receive operation stands for all of them (the
    correspondence runs every other session through these spellings). -/
theorem iteration_is_recv : Gen.iterationIsRecv = true := by decide

end WS.Props.C05
