/-
  WS.Props.C05c — C05/C06, what switching UTF-8 validation off changes in the frame check: the judgement of a close
  REASON, nothing else.
-/
import WS.Lemmas.Legal
import WS.Props.C05
namespace WS.Props.C05c
open WS WS.Model WS.Lemmas.Legal

/-- frames other than close frames are judged identically with validation on and off. -/
theorem C05_skip_only_close (f : Frame) (h : f.opcode ≠ 8) : validate f true = validate f false := by
  have k8 : Gen.opcodeClose = 8 := by decide
  unfold validate
  rw [k8]
  have : (f.opcode == 8) = false := by simpa using h
  simp [this]

/-- whatever validation on accepts, validation off accepts too. -/
theorem C05_skip_monotone (f : Frame) (h : validate f false = none) : validate f true = none := by
  by_cases h8 : f.opcode = 8
  · obtain ⟨kops, k8, k9, k10, k7, kb1, kb126, _, _, _⟩ := consts5
    unfold validate at h ⊢
    rw [kops, k8, k9, k10, k7, kb1, kb126, h8] at h ⊢
    by_cases hr : (f.rsv1 != 0 || f.rsv2 != 0 || f.rsv3 != 0) = true
    · simp [hr] at h
    · simp only [hr, Bool.false_eq_true, if_false] at h ⊢
      simp only [show ([0, 1, 2, 8, 9, 10].contains 8) = true by decide, Bool.not_true, Bool.false_eq_true, if_false,
        show ((8 : Nat) == 8) = true by decide, Bool.true_or, Bool.true_and, if_true] at h ⊢
      by_cases hc : (f.fin == 0 || decide (f.data.length ≥ 126)) = true
      · simp [hc] at h
      · simp only [hc, Bool.false_eq_true, if_false] at h ⊢
        by_cases hl0 : (f.data.length == 0) = true
        · simp [hl0]
        · simp only [hl0, Bool.false_eq_true, if_false] at h ⊢
          by_cases hl1 : (f.data.length == 1 || decide (f.data.length ≥ 126)) = true
          · simp [hl1] at h
          · simp only [hl1, Bool.false_eq_true, if_false] at h ⊢
            by_cases hu : (decide (f.data.length > 2) && !false && !validateUtf8 (f.data.drop 2)) = true
            · have hu' : 2 < f.data.length ∧ validateUtf8 (f.data.drop 2) = false := by simpa using hu
              simp [hu'] at h
            · simp only [hu, Bool.false_eq_true, if_false] at h
              simp only [Bool.and_false, Bool.false_and, Bool.false_eq_true, if_false]
              exact h
  · rw [C05_skip_only_close f h8]; exact h

/-- **C05_skip_keeps_code_check** — with UTF-8 validation switched OFF a close frame is still accepted only if its body
    is empty, or at least two bytes (at most 125) whose status code may appear on the wire, sent unfragmented with the
    reserved bits clear: only the judgement of the reason is switched off. -/
theorem C05_skip_keeps_code_check (f : Frame) (h8 : f.opcode = 8) (hv : validate f true = none) :
    f.rsv1 = 0 ∧ f.rsv2 = 0 ∧ f.rsv3 = 0 ∧ f.fin ≠ 0 ∧ f.data.length ≤ 125 ∧
    (f.data.length = 0 ∨ (2 ≤ f.data.length ∧
      isValidCloseStatus (256 * (f.data.getD 0 0).toNat + (f.data.getD 1 0).toNat) = true)) := by
  obtain ⟨kops, k8, k9, k10, k7, kb1, kb126, _, _, _⟩ := consts5
  unfold validate at hv
  rw [kops, k8, k9, k10, k7, kb1, kb126, h8] at hv
  by_cases hr : (f.rsv1 != 0 || f.rsv2 != 0 || f.rsv3 != 0) = true
  · simp [hr] at hv
  · simp only [hr, Bool.false_eq_true, if_false] at hv
    have hr' : f.rsv1 = 0 ∧ f.rsv2 = 0 ∧ f.rsv3 = 0 := by
      by_cases a : f.rsv1 = 0 <;> by_cases b : f.rsv2 = 0 <;> by_cases c : f.rsv3 = 0 <;> simp_all
    simp only [show ([0, 1, 2, 8, 9, 10].contains 8) = true by decide, Bool.not_true, Bool.false_eq_true, if_false,
      show ((8 : Nat) == 8) = true by decide, Bool.true_or, Bool.true_and, if_true] at hv
    by_cases hc : (f.fin == 0 || decide (f.data.length ≥ 126)) = true
    · simp [hc] at hv
    · simp only [hc, Bool.false_eq_true, if_false] at hv
      have hfin : f.fin ≠ 0 := by
        intro h0; simp [h0] at hc
      have hlen : f.data.length ≤ 125 := by
        by_cases hh : f.data.length ≤ 125
        · exact hh
        · exfalso
          have : f.data.length ≥ 126 := by omega
          simp [this] at hc
      refine ⟨hr'.1, hr'.2.1, hr'.2.2, hfin, hlen, ?_⟩
      by_cases hl0 : f.data.length = 0
      · exact Or.inl hl0
      · right
        have h0 : (f.data.length == 0) = false := by simpa using hl0
        simp only [h0, Bool.false_eq_true, if_false] at hv
        by_cases hl1 : (f.data.length == 1 || decide (f.data.length ≥ 126)) = true
        · simp [hl1] at hv
        · simp only [hl1, Bool.false_eq_true, if_false, Bool.not_true, Bool.and_false, Bool.false_and] at hv
          have h2 : 2 ≤ f.data.length := by
            have : f.data.length ≠ 1 := by
              intro h1; simp [h1] at hl1
            omega
          refine ⟨h2, ?_⟩
          by_cases hs : isValidCloseStatus (256 * (f.data.getD 0 0).toNat + (f.data.getD 1 0).toNat) = true
          · exact hs
          · exfalso
            have hs' : isValidCloseStatus (256 * (f.data.getD 0 0).toNat + (f.data.getD 1 0).toNat) = false := by
              cases hx : isValidCloseStatus (256 * (f.data.getD 0 0).toNat + (f.data.getD 1 0).toNat) <;> simp_all
            rw [hs'] at hv
            simp at hv

/-- non-vacuity: with validation off, `03 E8 FF` (code 1000, reason not UTF-8) is accepted, `03 E7 ..` (999) is not. -/
example : validate { fin := 1, rsv1 := 0, rsv2 := 0, rsv3 := 0, opcode := 8, mask := 0, data := [0x03, 0xE8, 0xFF] } true = none ∧
    validate { fin := 1, rsv1 := 0, rsv2 := 0, rsv3 := 0, opcode := 8, mask := 0, data := [0x03, 0xE7, 0x41] } true = some .proto ∧
    validate { fin := 1, rsv1 := 0, rsv2 := 0, rsv3 := 0, opcode := 8, mask := 0, data := [0x03, 0xE8, 0xFF] } false = some .proto := by
  decide

end WS.Props.C05c
