/-
  WS.Props.C14b — close() inside on_open (the scenario of finding F13), for every world and every setting, after the repair.
-/
import WS.Props.C14
namespace WS.Props.C14b
open WS WS.Model.App WS.Lemmas.App

/-- **C14_close_in_open_clean** — the application calls close() in on_open (its first invocation on this connection):
    whatever the server has sent or will send (`evs`), whatever dial outcomes follow (`ds`), keepalive and reconnect on or
    off, plain or TLS-style, any tie order: either the model's horizon cuts the run inside the closing handshake, or
    run_forever RETURNS FALSE and the callbacks of the run are exactly on_open and then on_close — no on_error, no second
    dial. (Before the repair: on_error(AttributeError), True.) -/
theorem C14_close_in_open_clean (c : Cfg) (hco : CloseOk c) (hacc : argsAccepted c.iv c.to = true)
    (ho : c.has .onOpen = true) (s0 : St) (hs : s0.sock = none)
    (hcl : c.act .onOpen (s0.calls .onOpen) = .close)
    (evs : List TEv) (ds : List Dial) (hd : s0.dials = .established evs :: ds) (hf : 0 < c.fuel) :
    (runForeverO c s0).2 = .cut ∨
    ((runForeverO c s0).2 = .returned false ∧
      ∃ a, cbs (runForever c s0) = cbs s0 ++ [(.onOpen, [])] ++ onCloseEv c a) := by
  unfold runForever runForeverO
  simp only [hacc, hs, Bool.not_true, Bool.false_eq_true, ↓reduceIte, Option.isSome_none]
  unfold runBody firstStage setSock
  -- the dial succeeds
  have hrel : release (prologue s0) false = prologue s0 := by simp [release]
  rw [hrel]
  have hdp : (prologue s0).dials = .established evs :: ds := by simpa [prologue] using hd
  obtain ⟨s1, hconn, h1s, h1h, h1e, h1k, h1c, h1calls⟩ :
      ∃ s1, connect (prologue s0) = (s1, .ok ()) ∧ s1.sock.isSome = true ∧ s1.hasDoneTeardown = false ∧
        s1.hasErrored = false ∧ s1.keepRunning = true ∧ cbs s1 = cbs s0 ∧ s1.calls = s0.calls := by
    refine ⟨_, by simp only [connect, hdp]; rfl, ?_, ?_, ?_, ?_, ?_, ?_⟩ <;>
      simp [prologue, St.emit, cbs, cbsOf]
  rw [hconn]
  simp only [afterConnect]
  -- the ping thread (if any) and the opening callback
  obtain ⟨p1, p2, p3, p4, p5⟩ := startPing_spec c s1
  have f2h : (if c.iv ≠ 0 then startPing c s1 else s1).hasDoneTeardown = false := by split <;> simp [*]
  have f2e : (if c.iv ≠ 0 then startPing c s1 else s1).hasErrored = false := by split <;> simp [*]
  have f2c : cbs (if c.iv ≠ 0 then startPing c s1 else s1) = cbs s0 := by split <;> simp [*]
  have f2calls : (if c.iv ≠ 0 then startPing c s1 else s1).calls = s0.calls := by split <;> simp [startPing, St.emit, *]
  generalize (if c.iv ≠ 0 then startPing c s1 else s1) = s2 at f2h f2e f2c f2calls ⊢
  have hcb : openCb c false = .onOpen := by simp [openCb]
  rw [hcb]
  have hact : c.act .onOpen (s2.calls .onOpen) = .close := by rw [f2calls]; exact hcl
  unfold callback
  simp only [ho, Bool.not_true, Bool.false_eq_true, ↓reduceIte]
  rw [rawCall_close c s2 .onOpen [] hact]
  -- close(): keep_running off, the socket released (or the horizon cuts the closing handshake)
  have hfr := appClose_frame c { s2 with calls := bump s2.calls .onOpen, trace := s2.trace ++ [(s2.now, .cb .onOpen [])] }
  have hsk := appClose_sock c { s2 with calls := bump s2.calls .onOpen, trace := s2.trace ++ [(s2.now, .cb .onOpen [])] }
  have hcb0 : cbs ({ s2 with calls := bump s2.calls .onOpen, trace := s2.trace ++ [(s2.now, .cb .onOpen [])] } : St) =
      cbs s0 ++ [(.onOpen, [])] := by
    rw [← f2c]; simp [cbs, cbsOf]
  generalize appClose c { s2 with calls := bump s2.calls .onOpen, trace := s2.trace ++ [(s2.now, .cb .onOpen [])] } = x
    at hfr hsk ⊢
  obtain ⟨s3, ok⟩ := x
  cases ok with
  | false =>
    left
    simp [afterOpen, afterBody]
  | true =>
    have h3s : s3.sock = none := hsk rfl
    have h3k : s3.keepRunning = false := hfr.kr
    have h3h : s3.hasDoneTeardown = false := by rw [hfr.hdt]; exact f2h
    have h3e : s3.hasErrored = false := by rw [hfr.he]; exact f2e
    have h3c : cbs s3 = cbs s0 ++ [(.onOpen, [])] := by rw [hfr.cb]; exact hcb0
    simp only [↓reduceIte, afterOpen, h3s]
    -- `self.sock.sock` on None: an AttributeError, met while the application is closing → teardown
    rw [C14.C14_closing_is_not_an_error c s3 .attrError false h3k (by decide)]
    rcases teardown_P c hco s3 none h3h with td | ⟨q, rok, hhe, a, hca⟩
    · left
      rcases hx : teardown c s3 none with ⟨s4, r4⟩
      rw [hx] at td
      cases r4 with
      | halt => simp [afterBody]
      | ok u => simp [R.isHalt] at td
      | exc e => simp [R.isHalt] at td
    · right
      rcases hx : teardown c s3 none with ⟨s4, r4⟩
      rw [hx] at q rok hhe hca
      simp only [] at q rok hhe hca
      subst rok
      simp only []
      -- the reconnect loop (if any) sees keep_running False; `finally: teardown()` is a no-op
      have hrl : (if c.reconnect ≠ 0 then reconnectLoop c c.fuel s4 else (s4, R.ok ())) = (s4, R.ok ()) := by
        split
        · obtain ⟨n, hn⟩ : ∃ n, c.fuel = n + 1 := ⟨c.fuel - 1, by omega⟩
          rw [hn]; simp [reconnectLoop, q.kr]
        · rfl
      rw [hrl]
      have htd2 : teardown c s4 none = (s4, R.ok ()) := by simp [teardown, q.hdt]
      simp only [afterBody, gen_finally, ↓reduceIte, htd2]
      refine ⟨by rw [hhe, h3e], a, ?_⟩
      rw [← h3c, ← hca]
      simp [cbs, cbsOf, St.emit]

/-- non-vacuity: the hypotheses are met by F13's configuration with keepalive, reconnect and TLS-style all ON. -/
example :
    let c : Cfg := { has := fun _ => true, plan := fun cb => if cb = .onOpen then [.close] else [], iv := 300,
                     to := some 200, payload := [1], reconnect := 500, ssl := true, horizon := 100000, fuel := 50 }
    CloseOk c ∧ argsAccepted c.iv c.to = true ∧ c.act .onOpen (({} : St).calls .onOpen) = .close ∧
    (runForeverO c { dials := [.established [⟨100, false, .message 1 [0x68] false⟩], .refused] }).2 = .returned false := by
  refine ⟨fun k => Or.inl ?_, by decide, by decide, by decide⟩
  simp [Cfg.act]

end WS.Props.C14b
