/-
  WS.Props.C07 — every ping is answered exactly once with a pong carrying the same payload.
-/
import WS.Props.C01
import WS.Props.C04
namespace WS.Props.C07
open WS WS.Spec WS.Model WS.Lemmas.RecvStrict WS.Lemmas.Parser WS.Lemmas.Stream WS.Lemmas.Loop

/-- **C07_pong_bytes** — the frame `pong(p)` formats for a ping payload `p` of at most 125 bytes is, for
    every `p` and every 4-byte key, read by the RFC decoder as FIN=1, opcode 10, MASK set, 7-bit length,
    payload exactly `p`, with nothing left over (instance of `C01_wire`). -/
theorem C07_pong_bytes (p key : Bytes) (hk : key.length = 4) (hp : p.length ≤ 125) :
    ∃ w, format (createFrame p Gen.opcodePong) key = .ok w ∧
      decode w = .frame { fin := 1, rsv1 := 0, rsv2 := 0, rsv3 := 0, opcode := 10, masked := true,
                          key := key, lenForm := 7, payload := p } [] := by
  have hop : Gen.opcodePong ∈ Gen.opcodes := by decide
  obtain ⟨w, h1, h2, _⟩ := WS.Props.C01.C01_wire 1 Gen.opcodePong key p (by omega) hop hk (by omega)
  refine ⟨w, h1, ?_⟩
  have : minimalForm p.length = 7 := by unfold minimalForm; rw [if_pos hp]
  rw [this] at h2
  exact h2

/-- **C07_trace** — along the frames of any message (pings and pongs at any position: before, between and
    inside the fragments), the bytes the receive call writes are EXACTLY the pongs for the pings, one each,
    in the order the pings arrived, each formatted with the next key from the key source — and nothing is
    written for pongs or data frames. (Each pong is written inside the loop iteration that read its ping,
    before `recv_frame` is called again: `step`/`loop_message` thread the state through `pong` before
    recursing.) -/
theorem C07_trace (fs : List Frame) (hm : MsgFrames none fs)
    (c : Conn) (ws : List WireFrame) (tail : Bytes)
    (hr : Ready c) (hidle : LoopInv c none []) (hmap : ws.map frameOfWire = fs)
    (hval : ∀ w ∈ ws, validate (frameOfWire w) c.skipUtf8 = none)
    (hd : DecodesTo (pending c) ws tail) :
    (c.recvDataFrame false).2.sock.wire = c.sock.wire ++ pongsWire c.keys fs := by
  have hfu : fs.length ≤ c.sock.size + c.buf.length + 2 := by
    rw [← hmap, List.length_map]; exact WS.Props.C04.fuel_enough c ws tail hd
  obtain ⟨c', e, _, _, _, w, _⟩ := loop_message fs none hm c [] ws tail _ hr hidle hmap hval hd hfu
  simp only [Conn.recvDataFrame]
  rw [e]
  exact w

end WS.Props.C07
