/-
  WS.Props.C07 — every ping is answered exactly once with a pong carrying the same payload.
-/
import WS.Props.C01
namespace WS.Props.C07
open WS WS.Spec WS.Model

/-- **C07_pong_bytes** — the frame `pong(p)` formats for a ping payload `p` of at most 125 bytes is, for
    every `p` and every 4-byte key, read by the RFC decoder as FIN=1, opcode 10, MASK set, 7-bit length,
    payload exactly `p`, with nothing left over (instance of `C01_wire`). -/
theorem C07_pong_bytes (p key : Bytes) (hk : key.length = 4) (hp : p.length ≤ 125) :
    ∃ w, format (createFrame p Gen.opcodePong) key = .ok w ∧
      decode w = .frame { fin := 1, rsv1 := 0, rsv2 := 0, rsv3 := 0, opcode := 10, masked := true,
                          key := key, lenForm := 7, payload := p } [] := by
  have hop : Gen.opcodePong ∈ Gen.opcodes := by decide
  obtain ⟨w, h1, h2, _⟩ := WS.Props.C01.C01_wire 1 Gen.opcodePong key p (by omega) hop hk (by omega)
  refine ⟨w, h1, ?_⟩
  have : minimalForm p.length = 7 := by unfold minimalForm; rw [if_pos hp]
  rw [this] at h2
  exact h2

end WS.Props.C07
