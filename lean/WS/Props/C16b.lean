/-
  WS.Props.C16b — C16 "pings carrying the configured payload": every ping frame the application writes, on any connection of
  any run, carries `ping_payload` — and nothing else in the application writes a ping.
-/
import WS.Lemmas.AppPings
import WS.Props.C16
namespace WS.Props.C16b
open WS WS.Model.App WS.Lemmas.App

/-- **C16_ping_payload** — for every configuration (callbacks set or not, callback plans that raise, close or interrupt,
    keepalive and reconnect settings, TLS-style or plain), every list of runs on the same object, each with its own keepalive
    arguments and its own world of dial outcomes and server events, every schedule of the ping thread against the reading
    loop: every PING frame in the trace carries exactly the configured payload. (Pongs answer with the PEER's payload and
    close frames carry the status; only the ping thread writes pings.) -/
theorem C16_ping_payload (c : Cfg) (runs : List ((Int × Option Int) × List Dial)) (s0 : St) (h0 : s0.trace = []) :
    ∀ te ∈ (runManyK c runs s0).trace, ∀ p, te.2 = .wrote Gen.opcodePing p → p = c.payload := by
  have h : PP c s0 := by intro te hte; rw [h0] at hte; cases hte
  exact pp_runManyK c runs s0 h

/-- the same for one run and for several runs with the same settings -/
theorem C16_ping_payload_run (c : Cfg) (s0 : St) (h0 : s0.trace = []) :
    ∀ te ∈ (runForever c s0).trace, ∀ p, te.2 = .wrote Gen.opcodePing p → p = c.payload := by
  have h : PP c s0 := by intro te hte; rw [h0] at hte; cases hte
  exact pp_runForever c s0 h

/-- non-vacuity, executed: interval 2 s, payload "hi", a connection that stays silent for about 7 s and then ends (first ping at 2·interval): pings are in the
    trace (two of them), and each carries "hi". -/
example :
    let c : Cfg := { has := fun _ => true, plan := fun _ => [], iv := 2048, to := none, payload := [0x68, 0x69],
                     reconnect := 0, ssl := false, horizon := 20000, fuel := 50 }
    let s := runForever c { dials := [.established [{ dt := 7000, burst := false, ev := .eof }]] }
    (s.trace.filter fun te => match te.2 with | .wrote 9 _ => true | _ => false).length = 2 ∧
    (s.trace.all fun te => match te.2 with | .wrote 9 p => p == [0x68, 0x69] | _ => true) = true := by decide +kernel

end WS.Props.C16b
