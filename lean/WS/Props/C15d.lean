/-
  WS.Props.C15d — `C15c.C15_resumes` with the ping thread running (any interval ≥ 0, no ping timeout, every schedule of the
  ping thread): a corollary of `C13b.C13_keepalive_transparent`, like `C15b.C15_retry_keepalive`.
-/
import WS.Props.C14c
import WS.Props.C15c
namespace WS.Props.C15d
open WS WS.Model.App WS.Lemmas.App WS.Lemmas.App.KA WS.Spec.AppTrace WS.Props.C14c

/-- **C15_resumes_keepalive** — `C15_resumes` with keepalive on (no ping timeout), for every schedule of the ping thread: any
    mix of failed attempts and established-then-lost connections, then a connection the server closes — the same return
    value, the same network skeleton (each retry exactly one interval after the loss, the transport left open released before
    the dial, one connection at a time, no dial after the server's close frame) and the same callbacks (on_error once for the
    first failure or loss only, the opening callback first on every connection, the Spec's deliveries, on_close last) as with
    keepalive off: the ping thread's own events aside, nothing changes. -/
theorem C15_resumes_keepalive (c : Cfg) (hq : Quiet c) (hto : c.to = none) (hiv : 0 ≤ c.iv)
    (hr : c.reconnect ≠ 0) (s0 : St) (a : Att) (as : List Att) (legal : List TEv) (te : TEv) (body : Bytes)
    (hs0 : s0.sock = none)
    (hd : s0.dials = (a :: as).map Att.toDial ++ [.established (legal ++ [te])])
    (hok : ∀ x ∈ a :: as, x.Ok)
    (hleg : ∀ e ∈ legal, isLegal e.ev = true) (hk : te.ev = .close body)
    (hfuel : need0 (selectTimeout c) (legal ++ [te]) + 1 ≤ c.fuel)
    (hfl : ∀ x ∈ a :: as, x.fuel (selectTimeout c) ≤ c.fuel) (hfuel2 : as.length + 2 ≤ c.fuel)
    (hz : endTime (attsEnd c.reconnect (attEnd s0.now a) as + c.reconnect) (legal ++ [te]) ≤ c.horizon) :
    let r := c.reconnect
    let t1 := attEnd s0.now a
    let i1 := s0.nextIdx + 1
    let o1 := attOpen s0.nextIdx a
    let tK := attsEnd r t1 as
    let iK := i1 + as.length
    let tEnd := endTime (tK + r) (legal ++ [te])
    (runForeverO c s0).2 = .returned true ∧
    netOnly (runForever c s0).trace =
      netOnly s0.trace ++ [(s0.now, .dial s0.nextIdx)] ++ attClose s0.now s0.nextIdx a ++
        attsTrace r t1 i1 o1 as ++
        [(tK, .sleep r)] ++ relTrace (tK + r) (attsOpen i1 o1 as) ++
        [(tK + r, .dial iK), (tEnd, .sockDropped iK), (tEnd, .returned true)] ∧
    cbOnly (runForever c s0).trace =
      cbOnly s0.trace ++ (attCb (off c) false s0.calls s0.now a).1 ++
        (attsCb (off c) r (attCb (off c) false s0.calls s0.now a).2 t1 as).1 ++
        finalCb (off c) (attsCb (off c) r (attCb (off c) false s0.calls s0.now a).2 t1 as).2 (tK + r) legal te body := by
  intro r t1 i1 o1 tK iK tEnd
  obtain ⟨htr, ho, _⟩ := C13b.C13_keepalive_transparent c hto hiv s0
  obtain ⟨h1, h2, h3⟩ :=
    C15c.C15_resumes (off c) hq (acc_off c hto) rfl hr (P s0) a as legal te body hs0 rfl rfl hd hok hleg hk hfuel hfl hfuel2 hz
  refine ⟨by rw [ho]; exact h1, ?_, ?_⟩
  · rw [← netOnly_strip, htr, h2]
    have : netOnly (P s0).trace = netOnly s0.trace := netOnly_strip s0.trace
    rw [this]
    rfl
  · rw [← C13b.cbOnly_strip, htr, h3]
    have : cbOnly (P s0).trace = cbOnly s0.trace := C13b.cbOnly_strip s0.trace
    rw [this]
    rfl

end WS.Props.C15d
