/-
  WS.Props.C17b — `WebSocket.recv()`, the str-returning receive call, raises documented exceptions only.
-/
import WS.Props.C17
namespace WS.Props.C17b
open WS WS.Model WS.Lemmas.RecvStrict WS.Lemmas.Parser WS.Lemmas.Total WS.Lemmas.Sizes WS.Lemmas.LoopTotal

/-- generated fact: `recv()` maps the UnicodeDecodeError of `data.decode("utf-8")` to WebSocketPayloadException. -/
theorem recv_guarded : Gen.recvDecodeGuard = true := by decide

/-- **C17_recv_no_internal** — `recv()` in EVERY configuration (per-fragment delivery on or off, UTF-8 validation on or
    off): whatever bytes the server sends, in any chunking, followed by end of stream or silence, the call returns a
    value or raises PROTO, PAYLOAD, CLOSED, TIMEOUT or the transport's own error — in particular a text payload that
    cannot be decoded (a fragment that ends inside a code point when fragments are delivered one by one; an ill-formed
    message when validation is off) raises PAYLOAD, never UnicodeDecodeError. -/
theorem C17_recv_no_internal (c : Conn) (hr : RxReady c) (e : Exn) (he : c.recv.1 = .error e) :
    e = .proto ∨ e = .payload ∨ e = .closed ∨ e = .timeout ∨ e = .transport := by
  unfold Conn.recv Conn.recvData at he
  have hb := WS.Props.C17.C17_message_no_internal c false hr
  generalize hx : c.recvDataFrame false = x at he hb
  obtain ⟨r, c'⟩ := x
  cases r with
  | error e' => simp at he; subst he; exact hb e' rfl
  | ok v =>
    obtain ⟨op, f⟩ := v
    simp only at he
    split at he
    · split at he
      · simp at he
      · simp [recv_guarded] at he; subst he; exact Or.inr (Or.inl rfl)
    · split at he <;> simp at he

/-- non-vacuity, executed: per-fragment delivery, the text fragment E3 81 (the first two bytes of "あ"): PAYLOAD. -/
example :
    let c : Conn := { fireCont := true, sock := { inp := [.chunk [0x01, 0x02, 0xE3, 0x81]] } }
    (match c.recv.1 with | .error .payload => true | _ => false) = true := by decide +kernel

/-- … and validation off, the ill-formed text message FF: PAYLOAD from `recv()`, while `recv_data()` passes it through. -/
example :
    let c : Conn := { skipUtf8 := true, sock := { inp := [.chunk [0x81, 0x01, 0xFF]] } }
    (match c.recv.1 with | .error .payload => true | _ => false) = true ∧
    (match (c.recvData false).1 with | .ok (op, d) => op == 1 && d == [0xFF] | _ => false) = true := by decide +kernel

end WS.Props.C17b
