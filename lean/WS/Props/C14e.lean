/-
  WS.Props.C14e — C14 for RECONNECTING runs (`C14_terminates` / `C14_close_args` cover one connection): corollaries of
  `C15c.C15_resumes`.
-/
import WS.Props.C15c
import WS.Props.C15d
namespace WS.Props.C14e
open WS WS.Model.App WS.Lemmas.App
open WS.Spec.AppTrace (cbOnly)

/-- **C14_terminates_reconnecting / C14_close_args_reconnecting** — a run with a reconnect interval whose attempts fail or are
    established and lost, in any mix and number, until the server closes a connection: `run_forever` RETURNS (True: errors
    were reported on the way), and the last callback of the whole run is on_close with the status code and reason of the
    server's close frame (`closeArgs`), at the tick the frame arrived — whatever happened on the connections before. -/
theorem C14_terminates_reconnecting (c : Cfg) (hq : Quiet c) (hacc : argsAccepted c.iv c.to = true) (hiv : c.iv = 0)
    (hr : c.reconnect ≠ 0) (hoc : c.has .onClose = true)
    (s0 : St) (a : Att) (as : List Att) (legal : List TEv) (te : TEv) (body : Bytes)
    (hs0 : s0.sock = none) (hp0 : s0.ping = none) (hl0 : s0.lastPing = 0)
    (hd : s0.dials = (a :: as).map Att.toDial ++ [.established (legal ++ [te])])
    (hok : ∀ x ∈ a :: as, x.Ok)
    (hleg : ∀ e ∈ legal, isLegal e.ev = true) (hk : te.ev = .close body)
    (hfuel : need0 (selectTimeout c) (legal ++ [te]) + 1 ≤ c.fuel)
    (hfl : ∀ x ∈ a :: as, x.fuel (selectTimeout c) ≤ c.fuel) (hfuel2 : as.length + 2 ≤ c.fuel)
    (hz : endTime (attsEnd c.reconnect (attEnd s0.now a) as + c.reconnect) (legal ++ [te]) ≤ c.horizon) :
    (runForeverO c s0).2 = .returned true ∧
    (cbOnly (runForever c s0).trace).getLast? =
      some (endTime (attsEnd c.reconnect (attEnd s0.now a) as + c.reconnect) (legal ++ [te]),
            .cb .onClose (closeArgs c (some body))) := by
  obtain ⟨h1, _, h3⟩ := C15c.C15_resumes c hq hacc hiv hr s0 a as legal te body hs0 hp0 hl0 hd hok hleg hk hfuel hfl hfuel2 hz
  refine ⟨h1, ?_⟩
  rw [h3]
  simp only [finalCb, cbTrace, hoc, Bool.not_true, Bool.false_eq_true, ↓reduceIte]
  simp only [hq.2.2, reduceCtorEq, Bool.false_and, Bool.false_eq_true, ↓reduceIte]
  simp [List.getLast?_append]

/-- the same with the ping thread running (any interval ≥ 0, no ping timeout, every schedule): `C15d.C15_resumes_keepalive` -/
theorem C14_terminates_reconnecting_keepalive (c : Cfg) (hq : Quiet c) (hto : c.to = none) (hiv : 0 ≤ c.iv)
    (hr : c.reconnect ≠ 0) (hoc : c.has .onClose = true)
    (s0 : St) (a : Att) (as : List Att) (legal : List TEv) (te : TEv) (body : Bytes)
    (hs0 : s0.sock = none)
    (hd : s0.dials = (a :: as).map Att.toDial ++ [.established (legal ++ [te])])
    (hok : ∀ x ∈ a :: as, x.Ok)
    (hleg : ∀ e ∈ legal, isLegal e.ev = true) (hk : te.ev = .close body)
    (hfuel : need0 (selectTimeout c) (legal ++ [te]) + 1 ≤ c.fuel)
    (hfl : ∀ x ∈ a :: as, x.fuel (selectTimeout c) ≤ c.fuel) (hfuel2 : as.length + 2 ≤ c.fuel)
    (hz : endTime (attsEnd c.reconnect (attEnd s0.now a) as + c.reconnect) (legal ++ [te]) ≤ c.horizon) :
    (runForeverO c s0).2 = .returned true ∧
    (cbOnly (runForever c s0).trace).getLast? =
      some (endTime (attsEnd c.reconnect (attEnd s0.now a) as + c.reconnect) (legal ++ [te]),
            .cb .onClose (closeArgs c (some body))) := by
  obtain ⟨h1, _, h3⟩ := C15d.C15_resumes_keepalive c hq hto hiv hr s0 a as legal te body hs0 hd hok hleg hk hfuel hfl hfuel2 hz
  refine ⟨h1, ?_⟩
  rw [h3]
  have hoc' : (WS.Lemmas.App.KA.off c).has .onClose = true := hoc
  have hq' : Quiet (WS.Lemmas.App.KA.off c) := hq
  have hca : closeArgs (WS.Lemmas.App.KA.off c) (some body) = closeArgs c (some body) := rfl
  simp only [finalCb, cbTrace, hoc', Bool.not_true, Bool.false_eq_true, ↓reduceIte]
  simp only [hq'.2.2, reduceCtorEq, Bool.false_and, Bool.false_eq_true, ↓reduceIte, hca]
  simp [List.getLast?_append]

end WS.Props.C14e
