/-
  WS.Props.C19 — property theorems for C19 (proxy selection, no_proxy, CONNECT).
  Helper lemmas live in WS.Lemmas.{Py,NoProxy}.
-/
import WS.Lemmas.Proxy
namespace WS.Props.C19
open WS WS.Py WS.Lemmas.Py WS.Lemmas.NoProxy WS.Lemmas.Proxy
open WS.Model.NoProxy

/-- generated fact: `_is_subnet_address` reads `0 <= int(netmask) <= 32`
    (false of a tree that still has `< 32`, which does not recognise `a/32`). -/
theorem mask_bound : Gen.subnetMaskStrict = false ∧ Gen.subnetMaskBound = 32 := by decide

/-- generated facts (T): the domain test is on a label boundary; `proxy_info` reads
    `http_no_proxy` unconditionally; an absent password becomes "" before `unquote`
    (each false of a tree without the corresponding repair). -/
theorem proxy_shape : Gen.noProxyLabelBoundary = true ∧ Gen.proxyInfoNoProxyAlways = true ∧
    Gen.envProxyPasswordOrEmpty = true := by decide

/-- **C19_cidr** — for every prefix length `p ≤ 32`, every network address and every host
    address (32-bit), the code's `ip & ((0xFFFFFFFF << (32-p)) & 0xFFFFFFFF) == net` says
    exactly: `net` has no host bits and `ip` agrees with it on the first `p` bits. -/
theorem C19_cidr (a p h : Nat) (hp : p ≤ 32) (hh : h < 2 ^ 32) :
    (h &&& ((0xFFFFFFFF <<< (32 - p)) &&& 0xFFFFFFFF) == a) = Spec.NoProxy.blockContains a p h :=
  cidr_mask a p h hp hh

example : Spec.NoProxy.blockContains 0x0A000001 32 0x0A000001 = true ∧
    Spec.NoProxy.blockContains 0x0A000000 8 0x0A636363 = true ∧
    Spec.NoProxy.blockContains 0x0A000001 8 0x0A000001 = false ∧
    Spec.NoProxy.blockContains 0 0 0xFFFFFFFF = true := by decide

/-- **C19_domain** — the repaired suffix test is the label-boundary test:
    `hostname == d.lstrip('.') or hostname.endswith('.' + d.lstrip('.'))` holds iff the labels
    of the named domain are a suffix of the labels of the host.  For *every* host and entry —
    the look-alike question (`badexample.com` vs `.example.com`) is settled universally. -/
theorem C19_domain (host d : Str) :
    (host == lstripChar '.' d || ('.' :: lstripChar '.' d).isSuffixOf host)
      = Spec.NoProxy.belongs host (lstripChar '.' d) := by
  unfold Spec.NoProxy.belongs Spec.NoProxy.labels
  rw [isSuffixOf_splitOn_eq]

/-- **C19_exempt** — for all hosts and all lists, `_is_no_proxy_host` (list already chosen)
    returns normally and answers exactly the Spec's exemption predicate. -/
theorem C19_exempt (host : Str) (list : List Str) :
    isNoProxyHostL host list = .ok (Spec.NoProxy.exempt host list) := by
  unfold isNoProxyHostL Spec.NoProxy.exempt
  rw [proxy_shape.1]
  simp only [List.contains_eq_mem]
  by_cases h1 : ['*'] ∈ list
  · simp [h1]
  by_cases h2 : host ∈ list
  · simp [h1, h2]
  simp only [h1, h2, decide_false, Bool.false_eq_true, if_false, Bool.false_or, Bool.or_false,
    isIpAddress]
  rcases Option.eq_none_or_eq_some (inetAton host) with hh | ⟨h, hh⟩
  case inr =>
    simp only [hh, Option.isSome_some, if_true]
    have hm : (list.filter isSubnetAddress).mapM (isAddressInNetwork host) =
        .ok ((list.filter isSubnetAddress).map fun e =>
          match Spec.NoProxy.cidr? e with
          | some (a, p) => Spec.NoProxy.blockContains a p h
          | none => false) := by
      apply mapM_ok
      intro e he
      have hs : isSubnetAddress e = true := (List.mem_filter.mp he).2
      rw [isSubnet_eq_cidr] at hs
      cases hc : Spec.NoProxy.cidr? e with
      | none => simp [hc] at hs
      | some ap => obtain ⟨a, p⟩ := ap; simp [inNetwork_ok host e h a p hh hc]
    rw [hm]
    simp only [bind, Except.bind]
    congr 1
    rw [List.any_map, List.any_filter]
    congr 1
    funext e
    rw [isSubnet_eq_cidr]
    rcases Option.eq_none_or_eq_some (Spec.NoProxy.cidr? e) with hc | ⟨⟨a, p⟩, hc⟩ <;> simp [hc]
  case inl =>
    simp only [hh, Option.isSome_none, Bool.false_eq_true, if_false]
    congr 1
    rw [List.any_filter]
    congr 1
    funext e
    unfold Spec.NoProxy.domainName?
    cases e with
    | nil => simp
    | cons c cs =>
      by_cases hc : c = '.'
      · subst hc
        have := C19_domain host ('.' :: cs)
        simp only [lstripChar, List.dropWhile_cons, beq_self_eq_true, if_true] at this
        simp [lstripChar, this]
      · have : (['.'].isPrefixOf (c :: cs)) = false := by simp [List.isPrefixOf, Ne.symm hc]
        rw [this]
        split <;> simp_all

/-- non-vacuity: each clause decides some concrete case, and the look-alike host is not exempt. -/
example :
    (isNoProxyHostL "a.example.com".toList [".example.com".toList]).toOption = some true ∧
    (isNoProxyHostL "example.com".toList [".example.com".toList]).toOption = some true ∧
    (isNoProxyHostL "badexample.com".toList [".example.com".toList]).toOption = some false ∧
    (isNoProxyHostL "10.0.0.1".toList ["10.0.0.1/32".toList]).toOption = some true ∧
    (isNoProxyHostL "10.9.9.9".toList ["10.0.0.0/8".toList]).toOption = some true ∧
    (isNoProxyHostL "11.0.0.1".toList ["10.0.0.0/8".toList]).toOption = some false ∧
    (isNoProxyHostL "h".toList ["*".toList]).toOption = some true := by decide

/-! ### which list, which proxy -/

/-- **C19_list** — the effective list is the option when non-empty, else the environment's
    (`no_proxy` before `NO_PROXY`), blanks removed, split on ",". -/
theorem C19_list (opt : List Str) (env : Env) :
    effectiveList opt env = Spec.NoProxy.noProxyList opt env := by
  unfold effectiveList Spec.NoProxy.noProxyList Spec.NoProxy.entries Spec.NoProxy.envEither
    Spec.NoProxy.envGet envGetD removeChar
  cases opt with
  | cons a r => simp
  | nil =>
    simp only [List.isEmpty_nil, if_true, ne_eq, not_true_eq_false, if_false]
    cases h1 : env.lookup "no_proxy" with
    | some v =>
      simp only [Option.getD_some]
      by_cases hv : v.filter (· != ' ') = []
      · simp [hv]
      · have : (v.filter (· != ' ')).isEmpty = false := by
          cases h : v.filter (· != ' ') <;> simp_all
        simp [hv, this]
    | none =>
      simp only [Option.getD_none]
      by_cases hv : ((env.lookup "NO_PROXY").getD []).filter (· != ' ') = []
      · simp [hv]
      · have : (((env.lookup "NO_PROXY").getD []).filter (· != ' ')).isEmpty = false := by
          cases h : ((env.lookup "NO_PROXY").getD []).filter (· != ' ') <;> simp_all
        simp [hv, this]

/-- **C19_exempt_env** — `_is_no_proxy_host(hostname, no_proxy)` with the list taken from the
    option or the environment: never fails, and answers the Spec's predicate. -/
theorem C19_exempt_env (host : Str) (opt : List Str) (env : Env) :
    isNoProxyHost host opt env =
      .ok (Spec.NoProxy.exempt host (Spec.NoProxy.noProxyList opt env)) := by
  unfold isNoProxyHost
  rw [C19_list, C19_exempt]

open WS.Model.Proxy in
/-- **C19_decision** — for all option combinations, environments and hosts, `proxy_info` +
    `get_proxy_info` decide exactly as documented: direct when exempt; else the option's proxy
    (PROXY error for port 0); else the URL in `http_proxy`/`https_proxy` (by scheme, lower case
    before upper case, blanks removed); else direct. -/
theorem C19_decision (v6ok : Str → Bool) (host : Str) (secure : Bool) (optHost : Str) (optPort : Nat)
    (optAuth : Option (Str × Str)) (optNoProxy : List Str) (env : Env) :
    getProxyInfo v6ok host secure (proxyInfo optHost optPort optAuth optNoProxy) env =
      match Spec.NoProxy.decision host secure optHost optPort optAuth optNoProxy env with
      | .direct => .ok direct
      | .viaOption h p a => .ok ⟨some h, some p, a⟩
      | .viaEnv v => envProxyParse v6ok v
      | .configError => .error .proxy := by
  unfold getProxyInfo Spec.NoProxy.decision
  have hnp : (proxyInfo optHost optPort optAuth optNoProxy).noProxy = optNoProxy := by
    unfold proxyInfo; rw [proxy_shape.2.1]; split <;> rfl
  rw [hnp, C19_exempt_env]
  by_cases hex : Spec.NoProxy.exempt host (Spec.NoProxy.noProxyList optNoProxy env) = true
  · simp [hex]
  · have hex' : Spec.NoProxy.exempt host (Spec.NoProxy.noProxyList optNoProxy env) = false := by
      simpa using hex
    simp only [hex', Bool.false_eq_true, if_false]
    by_cases hh : optHost = []
    · subst hh
      simp only [proxyInfo, List.isEmpty_nil, Bool.not_true, Bool.false_eq_true, if_false, ne_eq,
        not_true_eq_false]
      have henv : removeChar ' ' (envGetD env (if secure then "https_proxy" else "http_proxy")
          (envGetD env (if secure then "HTTPS_PROXY" else "HTTP_PROXY") [])) =
          Spec.NoProxy.envProxy secure env := by
        unfold Spec.NoProxy.envProxy Spec.NoProxy.envEither Spec.NoProxy.envGet envGetD removeChar
        cases secure
        · simp only [Bool.false_eq_true, if_false]
          cases env.lookup "http_proxy" <;> simp
        · simp only [if_true]
          cases env.lookup "https_proxy" <;> simp
      rw [henv]
      by_cases hv : Spec.NoProxy.envProxy secure env = []
      · simp [hv]
      · have : (Spec.NoProxy.envProxy secure env).isEmpty = false := by
          cases h : Spec.NoProxy.envProxy secure env <;> simp_all
        simp [hv, this]
    · have hne : optHost.isEmpty = false := by cases optHost <;> simp_all
      simp only [proxyInfo, hne, Bool.not_false, if_true, ne_eq, hh, not_false_eq_true]
      by_cases hp : optPort = 0
      · simp [hp]
      · simp [hp]

/-- the Spec's one-line summary agrees with its case analysis. -/
theorem C19_useProxy (host : Str) (secure : Bool) (optHost : Str) (optPort : Nat)
    (optAuth : Option (Str × Str)) (optNoProxy : List Str) (env : Env) :
    Spec.NoProxy.useProxy host secure optHost optNoProxy env = true ↔
      Spec.NoProxy.decision host secure optHost optPort optAuth optNoProxy env ≠ .direct := by
  unfold Spec.NoProxy.useProxy Spec.NoProxy.decision
  by_cases hex : Spec.NoProxy.exempt host (Spec.NoProxy.noProxyList optNoProxy env) = true
  · simp [hex]
  · by_cases hh : optHost = [] <;> by_cases hv : Spec.NoProxy.envProxy secure env = [] <;>
      by_cases hp : optPort = 0 <;> simp [hex, hh, hv, hp]

/-! ### the tunnel -/

open WS.Model.Proxy in
/-- **C19_connect_bytes** — for every host (without blank or CR), port and credentials, what
    `_tunnel` writes reads back under the Spec's grammar as
    `CONNECT host:port HTTP/1.1 CRLF Host: host:port CRLF [Proxy-Authorization: Basic b64 CRLF] CRLF`,
    and the base64 text decodes to exactly `user[:password]`. -/
theorem C19_connect_bytes (host : Str) (port : Nat) (auth : Option (Str × Str))
    (hh : ∀ c ∈ host, c ≠ ' ' ∧ c ≠ '\r') :
    Spec.NoProxy.parseConnect (tunnelRequest host port auth) =
      some ⟨host ++ ':' :: natStr port, host ++ ':' :: natStr port,
        (authStr? auth).map fun s => B64.encode (B64.asciiBytes s)⟩ ∧
    ∀ s, authStr? auth = some s → B64.decode (B64.encode (B64.asciiBytes s)) = some (B64.asciiBytes s) := by
  refine ⟨?_, fun s _ => WS.Lemmas.B64.decode_encode _⟩
  unfold tunnelRequest
  simp only []
  have hhp : ∀ c ∈ host ++ ':' :: natStr port, c ≠ ' ' ∧ c ≠ '\r' := by
    intro c hc
    simp only [List.mem_append, List.mem_cons] at hc
    rcases hc with hc | rfl | hc
    · exact hh c hc
    · decide
    · have := natStr_digits port c hc
      constructor <;> (intro e; subst e; simp [Char.isDigit] at this)
  generalize host ++ ':' :: natStr port = hp at hhp ⊢
  have hcr0 : '\r' ∉ "CONNECT ".toList ++ hp ++ " HTTP/1.1".toList := by
    simp only [List.mem_append, not_or]
    exact ⟨⟨by decide, fun h => (hhp _ h).2 rfl⟩, by decide⟩
  have hcr1 : '\r' ∉ "Host: ".toList ++ hp := by
    simp only [List.mem_append, not_or]
    exact ⟨by decide, fun h => (hhp _ h).2 rfl⟩
  have hsp : splitOn ' ' ("CONNECT ".toList ++ hp ++ " HTTP/1.1".toList) =
      ["CONNECT".toList, hp, "HTTP/1.1".toList] := by
    have e : "CONNECT ".toList ++ hp ++ " HTTP/1.1".toList =
        "CONNECT".toList ++ ' ' :: (hp ++ ' ' :: "HTTP/1.1".toList) := by simp
    rw [e, WS.Lemmas.Py.splitOn_append_sep, WS.Lemmas.Py.splitOn_append_sep,
      splitOn_notin ' ' hp (fun h => (hhp _ h).1 rfl)]
    have h1 : splitOn ' ' "CONNECT".toList = ["CONNECT".toList] := by decide
    have h2 : splitOn ' ' "HTTP/1.1".toList = ["HTTP/1.1".toList] := by decide
    rw [h1, h2]; rfl
  have hpre : Spec.NoProxy.stripPrefix? "Host: ".toList ("Host: ".toList ++ hp) = some hp := by
    simp [Spec.NoProxy.stripPrefix?]
  cases ha : authStr? auth with
  | none =>
    simp only []
    have e : "CONNECT ".toList ++ hp ++ " HTTP/1.1".toList ++ crlf ++ ("Host: ".toList ++ hp ++ crlf) ++ [] ++ crlf =
        ("CONNECT ".toList ++ hp ++ " HTTP/1.1".toList) ++ '\r' :: '\n' ::
          (("Host: ".toList ++ hp) ++ '\r' :: '\n' :: ([] ++ '\r' :: '\n' :: [])) := by
      simp [crlf]
    rw [e]
    unfold Spec.NoProxy.parseConnect
    rw [crlfLines_append _ _ hcr0, crlfLines_append _ _ hcr1, crlfLines_append [] [] (by simp)]
    simp only [Spec.NoProxy.crlfLines, hsp, hpre, and_self, if_true, Option.map_none]
  | some s =>
    simp only []
    have hcr2 : '\r' ∉ "Proxy-Authorization: Basic ".toList ++ B64.encode (B64.asciiBytes s) := by
      simp only [List.mem_append, not_or]
      exact ⟨by decide, fun h => (WS.Lemmas.B64.encode_safe _ _ h).1 rfl⟩
    have e : "CONNECT ".toList ++ hp ++ " HTTP/1.1".toList ++ crlf ++ ("Host: ".toList ++ hp ++ crlf) ++
          ("Proxy-Authorization: Basic ".toList ++ B64.encode (B64.asciiBytes s) ++ crlf) ++ crlf =
        ("CONNECT ".toList ++ hp ++ " HTTP/1.1".toList) ++ '\r' :: '\n' ::
          (("Host: ".toList ++ hp) ++ '\r' :: '\n' ::
            (("Proxy-Authorization: Basic ".toList ++ B64.encode (B64.asciiBytes s)) ++ '\r' :: '\n' ::
              ([] ++ '\r' :: '\n' :: []))) := by
      simp [crlf]
    rw [e]
    unfold Spec.NoProxy.parseConnect
    rw [crlfLines_append _ _ hcr0, crlfLines_append _ _ hcr1, crlfLines_append _ _ hcr2,
      crlfLines_append [] [] (by simp)]
    have hpre2 : Spec.NoProxy.stripPrefix? "Proxy-Authorization: Basic ".toList
        ("Proxy-Authorization: Basic ".toList ++ B64.encode (B64.asciiBytes s)) =
          some (B64.encode (B64.asciiBytes s)) := by
      simp [Spec.NoProxy.stripPrefix?]
    generalize "Proxy-Authorization: Basic ".toList ++ B64.encode (B64.asciiBytes s) = l2 at hpre2 ⊢
    simp only [Spec.NoProxy.crlfLines, hsp, hpre, hpre2, and_self, if_true, Option.map_some]

open WS.Model.Proxy in
/-- generated fact (T): the status `_tunnel` waits for, and the port used when the proxy URL
    names none. -/
theorem tunnel_consts : Gen.tunnelOkStatus = 200 ∧ Gen.proxyDefaultPort = 80 := by decide

open WS.Model.Proxy in
/-- **C19_gate** — for every reply (any bytes): `_tunnel` proceeds iff `read_headers` returns
    status 200; everything else — another status, a malformed head, end of stream, an internal
    error inside `read_headers` — is reported as PROXY. -/
theorem C19_gate (reply : Str) :
    (tunnel reply = .ok () ↔ readStatus reply = .ok (some 200)) ∧
    (∀ e, tunnel reply = .error e → e = .proxy) := by
  unfold tunnel
  rw [tunnel_consts.1]
  cases h : readStatus reply with
  | error e => simp
  | ok st =>
    by_cases hs : st = some 200
    · subst hs; simp
    · have : (st == some 200) = false := by simpa using hs
      simp [this, hs]

open WS.Model.Proxy in
/-- **C19_gate_connect** — a proxy reply that is not a 200 ends `connect()` with PROXY: the
    socket is closed, and nothing was written after the CONNECT request (no TLS, no handshake). -/
theorem C19_gate_connect (v6ok : Str → Bool) (url : Str) (timeout : Nat) (sockopt : List String)
    (p : ProxyInfo) (env : Env) (w : World) (t : Net.Target) (c : Choice) (o : Net.Outcome)
    (outs : List Net.Outcome) (i : Nat) (evs : List Net.Ev) (ph : Str)
    (hp : Model.Url.parseUrl v6ok url = .ok t) (hc : getProxyInfo v6ok t.host t.secure p env = .ok c)
    (ha : w.addrs = some (o :: outs))
    (hd : Model.OpenSocket.openSocket timeout sockopt (o :: outs) = (.ok i, evs))
    (hph : c.host = some ph) (hne : ph ≠ [])
    (hbad : readStatus w.proxyReply ≠ .ok (some 200)) :
    ∃ pp, connect v6ok url timeout sockopt p env w =
      (.error .proxy, CEv.resolve ph pp :: evs.map .sock
        ++ [.send i (tunnelRequest t.host t.port c.auth)] ++ [.sock (.close i)]) := by
  rw [connect_eq v6ok url timeout sockopt p env w t c o outs i evs hp hc ha hd]
  have hne' : ph.isEmpty = false := by cases ph <;> simp_all
  have hg := C19_gate w.proxyReply
  cases ht : tunnel w.proxyReply with
  | ok u => exact absurd (hg.1.mp (by rw [ht])) hbad
  | error e =>
    have := hg.2 e ht; subst this
    simp only [addrTarget, hph, hne', Bool.false_eq_true, if_false, if_true]
    exact ⟨_, rfl⟩

open WS.Model.Proxy in
/-- **C19_order** — through a proxy that answers 200: the proxy's address is what is resolved
    and dialled, the CONNECT request (naming the origin's host and port) is the first thing
    written, TLS (for wss) comes after it and is addressed to the origin's host name, and the
    handshake target handed back is the origin (host, port, resource). -/
theorem C19_order (v6ok : Str → Bool) (url : Str) (timeout : Nat) (sockopt : List String)
    (p : ProxyInfo) (env : Env) (w : World) (t : Net.Target) (c : Choice) (o : Net.Outcome)
    (outs : List Net.Outcome) (i : Nat) (evs : List Net.Ev) (ph : Str)
    (hp : Model.Url.parseUrl v6ok url = .ok t) (hc : getProxyInfo v6ok t.host t.secure p env = .ok c)
    (ha : w.addrs = some (o :: outs))
    (hd : Model.OpenSocket.openSocket timeout sockopt (o :: outs) = (.ok i, evs))
    (hph : c.host = some ph) (hne : ph ≠ [])
    (hok : readStatus w.proxyReply = .ok (some 200)) :
    ∃ pp, connect v6ok url timeout sockopt p env w =
      (.ok (i, t), CEv.resolve ph pp :: evs.map .sock
        ++ [.send i (tunnelRequest t.host t.port c.auth)]
        ++ (if t.secure then [.tls i t.host] else [])) := by
  rw [connect_eq v6ok url timeout sockopt p env w t c o outs i evs hp hc ha hd]
  have hne' : ph.isEmpty = false := by cases ph <;> simp_all
  have ht : tunnel w.proxyReply = .ok () := (C19_gate w.proxyReply).1.mpr hok
  simp only [addrTarget, hph, hne', Bool.false_eq_true, if_false, if_true, ht]
  exact ⟨_, rfl⟩

open WS.Model.Proxy in
/-- **C19_direct** — when the decision is "direct", the URL's own host and port are resolved,
    nothing is written before the handshake, TLS (wss) is addressed to the URL's host. -/
theorem C19_direct (v6ok : Str → Bool) (url : Str) (timeout : Nat) (sockopt : List String)
    (p : ProxyInfo) (env : Env) (w : World) (t : Net.Target) (o : Net.Outcome)
    (outs : List Net.Outcome) (i : Nat) (evs : List Net.Ev)
    (hp : Model.Url.parseUrl v6ok url = .ok t) (hc : getProxyInfo v6ok t.host t.secure p env = .ok direct)
    (ha : w.addrs = some (o :: outs))
    (hd : Model.OpenSocket.openSocket timeout sockopt (o :: outs) = (.ok i, evs)) :
    connect v6ok url timeout sockopt p env w =
      (.ok (i, t), CEv.resolve t.host t.port :: evs.map .sock
        ++ (if t.secure then [.tls i t.host] else [])) := by
  rw [connect_eq v6ok url timeout sockopt p env w t direct o outs i evs hp hc ha hd]
  simp [addrTarget, direct]

end WS.Props.C19
