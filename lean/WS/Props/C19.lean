/-
  WS.Props.C19 — property theorems for C19 (proxy selection, no_proxy, CONNECT).
  Helper lemmas live in WS.Lemmas.{Py,NoProxy}.
-/
import WS.Lemmas.NoProxy
namespace WS.Props.C19
open WS WS.Py WS.Lemmas.Py WS.Lemmas.NoProxy
open WS.Model.NoProxy

/-- generated fact: `_is_subnet_address` reads `0 <= int(netmask) <= 32`
    (false of a tree that still has `< 32`, which does not recognise `a/32`). -/
theorem mask_bound : Gen.subnetMaskStrict = false ∧ Gen.subnetMaskBound = 32 := by decide

theorem inetAton_lt {s : Str} {n : Nat} (h : inetAton s = some n) : n < 2 ^ 32 := by
  unfold inetAton at h
  split at h
  · next a b c d _ =>
    cases ha : octet a <;> cases hb : octet b <;> cases hc : octet c <;> cases hd : octet d <;>
      simp [ha, hb, hc, hd] at h
    next va vb vc vd =>
    have bound : ∀ (s : Str) (v : Nat), octet s = some v → v ≤ 255 := by
      intro s v hv
      unfold octet at hv
      split at hv
      · split at hv
        · next hle => simp at hv; simp at hle; omega
        · simp at hv
      · simp at hv
    have := bound a va ha; have := bound b vb hb; have := bound c vc hc; have := bound d vd hd
    omega
  · simp at h

/-- `_is_subnet_address` recognises exactly the entries the Spec reads as `a/p`, `p ≤ 32`. -/
theorem isSubnet_eq_cidr (e : Str) : isSubnetAddress e = (Spec.NoProxy.cidr? e).isSome := by
  unfold isSubnetAddress Spec.NoProxy.cidr? isIpAddress maskInRange
  rw [mask_bound.1, mask_bound.2]
  generalize splitOn '/' e = l
  rcases l with _ | ⟨a, _ | ⟨p, _ | ⟨q, r⟩⟩⟩ <;> simp
  cases inetAton a <;> cases pyInt p <;> simp
  next n => by_cases h : n ≤ 32 <;> simp [h]

/-- **C19_cidr** — for every prefix length `p ≤ 32`, every network address and every host
    address (32-bit), the code's `ip & ((0xFFFFFFFF << (32-p)) & 0xFFFFFFFF) == net` says
    exactly: `net` has no host bits and `ip` agrees with it on the first `p` bits. -/
theorem C19_cidr (a p h : Nat) (hp : p ≤ 32) (hh : h < 2 ^ 32) :
    (h &&& ((0xFFFFFFFF <<< (32 - p)) &&& 0xFFFFFFFF) == a) = Spec.NoProxy.blockContains a p h := by
  rw [and_mask h (32 - p) hh (by omega)]
  unfold Spec.NoProxy.blockContains
  rw [Bool.eq_iff_iff]
  simp only [beq_iff_eq, Bool.and_eq_true]
  exact div_mul_eq_iff h a (2 ^ (32 - p)) (Nat.pow_pos (by decide))

example : Spec.NoProxy.blockContains 0x0A000001 32 0x0A000001 = true ∧
    Spec.NoProxy.blockContains 0x0A000000 8 0x0A636363 = true ∧
    Spec.NoProxy.blockContains 0x0A000001 8 0x0A000001 = false ∧
    Spec.NoProxy.blockContains 0 0 0xFFFFFFFF = true := by decide

/-- under the guards of `_is_no_proxy_host` the network test cannot fail. -/
theorem inNetwork_ok (host e : Str) (h a p : Nat) (hh : inetAton host = some h)
    (he : Spec.NoProxy.cidr? e = some (a, p)) :
    isAddressInNetwork host e = .ok (Spec.NoProxy.blockContains a p h) := by
  unfold Spec.NoProxy.cidr? at he
  unfold isAddressInNetwork
  rw [hh]
  generalize splitOn '/' e = l at he ⊢
  rcases l with _ | ⟨sa, _ | ⟨sp, _ | ⟨q, r⟩⟩⟩ <;> simp at he
  cases ha : inetAton sa <;> cases hq : pyInt sp <;> simp [ha, hq] at he
  next va vp =>
  obtain ⟨hle, rfl, rfl⟩ := he
  simp only [ha, hq, show ¬ vp > 32 by omega, if_false]
  rw [C19_cidr va vp h hle (inetAton_lt hh)]

/-- **C19_domain** — the repaired suffix test is the label-boundary test:
    `hostname == d.lstrip('.') or hostname.endswith('.' + d.lstrip('.'))` holds iff the labels
    of the named domain are a suffix of the labels of the host.  For *every* host and entry —
    the look-alike question (`badexample.com` vs `.example.com`) is settled universally. -/
theorem C19_domain (host d : Str) :
    (host == lstripChar '.' d || ('.' :: lstripChar '.' d).isSuffixOf host)
      = Spec.NoProxy.belongs host (lstripChar '.' d) := by
  unfold Spec.NoProxy.belongs Spec.NoProxy.labels
  rw [isSuffixOf_splitOn_eq]

/-- **C19_exempt** — for all hosts and all lists, `_is_no_proxy_host` (list already chosen)
    returns normally and answers exactly the Spec's exemption predicate. -/
theorem C19_exempt (host : Str) (list : List Str) :
    isNoProxyHostL host list = .ok (Spec.NoProxy.exempt host list) := by
  unfold isNoProxyHostL Spec.NoProxy.exempt
  simp only [List.contains_eq_mem]
  by_cases h1 : ['*'] ∈ list
  · simp [h1]
  by_cases h2 : host ∈ list
  · simp [h1, h2]
  simp only [h1, h2, decide_false, Bool.false_eq_true, if_false, Bool.false_or, Bool.or_false,
    isIpAddress]
  rcases Option.eq_none_or_eq_some (inetAton host) with hh | ⟨h, hh⟩
  case inr =>
    simp only [hh, Option.isSome_some, if_true]
    have hm : (list.filter isSubnetAddress).mapM (isAddressInNetwork host) =
        .ok ((list.filter isSubnetAddress).map fun e =>
          match Spec.NoProxy.cidr? e with
          | some (a, p) => Spec.NoProxy.blockContains a p h
          | none => false) := by
      apply mapM_ok
      intro e he
      have hs : isSubnetAddress e = true := (List.mem_filter.mp he).2
      rw [isSubnet_eq_cidr] at hs
      cases hc : Spec.NoProxy.cidr? e with
      | none => simp [hc] at hs
      | some ap => obtain ⟨a, p⟩ := ap; simp [inNetwork_ok host e h a p hh hc]
    rw [hm]
    simp only [bind, Except.bind]
    congr 1
    rw [List.any_map, List.any_filter]
    congr 1
    funext e
    rw [isSubnet_eq_cidr]
    rcases Option.eq_none_or_eq_some (Spec.NoProxy.cidr? e) with hc | ⟨⟨a, p⟩, hc⟩ <;> simp [hc]
  case inl =>
    simp only [hh, Option.isSome_none, Bool.false_eq_true, if_false]
    congr 1
    rw [List.any_filter]
    congr 1
    funext e
    unfold Spec.NoProxy.domainName?
    cases e with
    | nil => simp
    | cons c cs =>
      by_cases hc : c = '.'
      · subst hc
        have := C19_domain host ('.' :: cs)
        simp only [lstripChar, List.dropWhile_cons, beq_self_eq_true, if_true] at this
        simp [lstripChar, this]
      · have : (['.'].isPrefixOf (c :: cs)) = false := by simp [List.isPrefixOf, Ne.symm hc]
        rw [this]
        split <;> simp_all

/-- non-vacuity: each clause decides some concrete case, and the look-alike host is not exempt. -/
example :
    (isNoProxyHostL "a.example.com".toList [".example.com".toList]).toOption = some true ∧
    (isNoProxyHostL "example.com".toList [".example.com".toList]).toOption = some true ∧
    (isNoProxyHostL "badexample.com".toList [".example.com".toList]).toOption = some false ∧
    (isNoProxyHostL "10.0.0.1".toList ["10.0.0.1/32".toList]).toOption = some true ∧
    (isNoProxyHostL "10.9.9.9".toList ["10.0.0.0/8".toList]).toOption = some true ∧
    (isNoProxyHostL "11.0.0.1".toList ["10.0.0.0/8".toList]).toOption = some false ∧
    (isNoProxyHostL "h".toList ["*".toList]).toOption = some true := by decide

end WS.Props.C19
