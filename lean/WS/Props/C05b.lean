/-
  WS.Props.C05b — C05, frame level and sequencing (second file: builds on the parser refinement).
-/
import WS.Lemmas.Legal
import WS.Lemmas.Stream
import WS.Lemmas.Total
namespace WS.Props.C05b
open WS WS.Spec WS.Model WS.Lemmas.RecvStrict WS.Lemmas.Frame WS.Lemmas.Parser WS.Lemmas.Stream WS.Lemmas.Legal

theorem decode_fin_lt {bs rest : Bytes} {w : WireFrame} (h : decode bs = .frame w rest) : (frameOfWire w).fin < 2 := by
  cases bs with
  | nil => simp [decode] at h
  | cons b0 t =>
    cases t with
    | nil => simp [decode] at h
    | cons b1 r2 =>
      simp only [decode] at h
      obtain ⟨extN, form, L, _, hpay⟩ := decodeLen_frame _ _ _ _ _ _ h
      obtain ⟨_, hw, _⟩ := decodePayload_frame _ _ _ _ _ _ _ hpay
      rw [hw]
      simp only [frameOfWire, mkWire]
      have := b0.toNat_lt
      omega

/-- **C05_reject** — a frame the RFC forbids at frame level (reserved bit set, unassigned opcode, control
    frame fragmented or longer than 125 bytes, close body of one byte / with a status code that may not appear
    on the wire / with a reason that is not UTF-8) makes the receive call that reads it raise the PROTOCOL
    exception — for every such frame, in every encoding and chunking — and nothing of it is returned; its
    bytes are consumed, so the stream stays in step. -/
theorem C05_reject (c : Conn) (hl : Live c) (hch : Chunks c.sock.inp) (hclr : Cleared c) (hskip : c.skipUtf8 = false)
    (w : WireFrame) (rest : Bytes) (hdec : decode (pending c) = .frame w rest)
    (hill : frameLevelLegal (frameOfWire w) = false) :
    ∃ c', c.recvFrame = (.error .proto, c') ∧ pending c' = rest := by
  obtain ⟨c', e, p, _, _⟩ := recvFrame_decodes c hl hch hclr w rest hdec
  have hv := validate_iff_legal (frameOfWire w) (decode_fin_lt hdec)
  rw [hill] at hv
  rw [hskip] at e
  cases hval : validate (frameOfWire w) false with
  | none => rw [hval] at hv; simp at hv
  | some ex =>
    rw [hval] at e
    have := WS.Lemmas.Total.validate_benign _ _ _ hval
    subst this
    exact ⟨c', e, p⟩

/-- **C05_accept** — every frame that is legal at frame level is returned by `recv_frame` as decoded. -/
theorem C05_accept (c : Conn) (hl : Live c) (hch : Chunks c.sock.inp) (hclr : Cleared c) (hskip : c.skipUtf8 = false)
    (w : WireFrame) (rest : Bytes) (hdec : decode (pending c) = .frame w rest)
    (hleg : frameLevelLegal (frameOfWire w) = true) :
    ∃ c', c.recvFrame = (.ok (frameOfWire w), c') ∧ pending c' = rest := by
  obtain ⟨c', e, p, _, _⟩ := recvFrame_decodes c hl hch hclr w rest hdec
  have hv := validate_iff_legal (frameOfWire w) (decode_fin_lt hdec)
  rw [hleg] at hv
  rw [hskip] at e
  cases hval : validate (frameOfWire w) false with
  | none => rw [hval] at e; exact ⟨c', e, p⟩
  | some ex => rw [hval] at hv; simp at hv

/-- **C05_sequencing** — a continuation with no message in progress, or a new text/binary frame inside an
    unfinished message, makes the message-level receive call raise the PROTOCOL exception; and the code's
    in-message flag follows the Spec's along every history (`contAdd_flag`), so this holds at any depth. -/
theorem C05_sequencing (c c1 : Conn) (f : Frame) (fuel : Nat) (cf : Bool)
    (hrecv : c.recvFrame = (.ok f, c1)) (hdata : f.opcode = 0 ∨ f.opcode = 1 ∨ f.opcode = 2)
    (hill : seqLegal (recvingTruthy c1) f.opcode = false) :
    Conn.recvDataFrameLoop (fuel + 1) c cf = (.error .proto, c1) := by
  obtain ⟨_, _, _, _, _, _, _, k0, k1, k2⟩ := consts5
  have hv := contValidate_iff c1 f
  rw [hill] at hv
  have hisdata : (f.opcode == Gen.opcodeText || f.opcode == Gen.opcodeBinary || f.opcode == Gen.opcodeCont) = true := by
    rw [k0, k1, k2]; rcases hdata with h | h | h <;> simp [h]
  unfold Conn.recvDataFrameLoop
  simp only [hrecv, hisdata, if_true]
  cases hcv : c1.contValidate f with
  | none => rw [hcv] at hv; simp at hv
  | some e =>
    simp only []
    have : c1.contValidate f = none ∨ c1.contValidate f = some .proto := by
      unfold Conn.contValidate
      simp only []
      repeat' split
      all_goals first | exact Or.inl rfl | exact Or.inr rfl
    rcases this with h | h
    · rw [h] at hcv; cases hcv
    · rw [h] at hcv; injection hcv with h'; rw [← h']

/-- the full RFC predicate splits into the two parts proved above. -/
theorem C05_spec_split (inMsg : Bool) (f : Frame) :
    frameLegal inMsg f.fin f.rsv1 f.rsv2 f.rsv3 f.opcode f.data = (frameLevelLegal f && seqLegal inMsg f.opcode) := by
  rw [frameLegal_split]; simp [seqLegal, Bool.and_assoc]

end WS.Props.C05b
