/-
  WS.Props.C06b — C06 at message level: validity is judged on the reassembled message.
-/
import WS.Props.C04
import WS.Props.C06
namespace WS.Props.C06b
open WS WS.Model WS.Spec WS.Lemmas.RecvStrict WS.Lemmas.Parser WS.Lemmas.Stream WS.Lemmas.ShortWrites WS.Lemmas.Loop

/-- **C06_message** — for EVERY fragmentation of a text message (any cuts, including inside a code point, any
    pings/pongs in between, any chunking of the bytes), the receive call delivers the message exactly when the
    REASSEMBLED payload is well-formed UTF-8 (Unicode Table 3-7), and raises the payload exception otherwise;
    nothing else about the fragmentation matters. With validation switched off the bytes pass through unchanged. -/
theorem C06_message (fs : List Frame) (hm : MsgFrames none fs) (htext : firstDataOp fs = 1)
    (c : Conn) (ws : List WireFrame) (tail : Bytes)
    (hr : Ready c) (hidle : LoopInv c none []) (hmap : ws.map frameOfWire = fs)
    (hval : ∀ w ∈ ws, validate (frameOfWire w) c.skipUtf8 = none)
    (hd : DecodesTo (pending c) ws tail) :
    ∃ c', c.recvDataFrame false =
        (if c.skipUtf8 || wellFormed (msgPayload fs) then .ok (1, { lastFrame fs with data := msgPayload fs })
         else .error .payload, c') ∧ pending c' = tail := by
  obtain ⟨c', e, _, p, _⟩ := WS.Props.C04.C04_reassembly fs hm c ws tail hr hidle hmap hval hd
  refine ⟨c', ?_, p⟩
  rw [e, htext]
  unfold deliver
  rw [WS.Props.C06.C06_validate]
  cases hs : c.skipUtf8 <;> cases hw : wellFormed (msgPayload fs) <;> simp

end WS.Props.C06b
