/-
  WS.Props.C12d — the write loop of `send_frame` over the real transport glue (`_socket.send`), would-block worlds included:
  whatever the transport does call by call, what it has accepted is a prefix of the frame; the loop ends normally only when
  the whole frame has been accepted; a would-block whose wait expires neither loses nor repeats a byte.
-/
import WS.Model.SendGlue
import WS.Props.C17c
namespace WS.Props.C12d
open WS WS.Model.Glue WS.Model.SendGlue

/-- **C12_glue_prefix** — for EVERY list of transport worlds (short writes of any size — zero and over-long included —,
    would-block with the wait expiring or not, timeouts, end of stream, OS errors; blocking or non-blocking), every frame and
    everything accepted before: the transport has accepted the old bytes followed by a PREFIX of the frame, never anything
    else, whatever way the loop ends. -/
theorem C12_glue_prefix (nb : Bool) : ∀ (ws : List World) (data wire : Bytes),
    ∃ k, (sendLoop nb ws data wire).2 = wire ++ data.take k := by
  intro ws
  induction ws with
  | nil =>
    intro data wire
    cases data with
    | nil => exact ⟨0, by simp [sendLoop]⟩
    | cons b bs => exact ⟨0, by simp [sendLoop]⟩
  | cons w rest ih =>
    intro data wire
    cases data with
    | nil => exact ⟨0, by simp [sendLoop]⟩
    | cons b bs =>
      rw [sendLoop]
      generalize send nb w.r1 w.ready w.r2 = o
      cases o with
      | ok v =>
        cases v with
        | none => exact ih (b :: bs) wire
        | some n =>
          obtain ⟨k, hk⟩ := ih ((b :: bs).drop n) (wire ++ (b :: bs).take n)
          refine ⟨min n (b :: bs).length + k, ?_⟩
          simp only [hk, List.append_assoc, List.append_cancel_left_eq]
          rw [List.take_add]
          congr 1
          · rw [List.take_eq_take_min]
          · congr 1
            by_cases hn : n ≤ (b :: bs).length
            · rw [Nat.min_eq_left hn]
            · have hn' : (b :: bs).length ≤ n := by omega
              rw [Nat.min_eq_right hn', List.drop_of_length_le hn', List.drop_of_length_le (Nat.le_refl _)]
      | timeout => exact ⟨0, by simp⟩
      | closed => exact ⟨0, by simp⟩
      | own r => exact ⟨0, by simp⟩

/-- **C12_glue_done** — the loop ends normally ONLY when the transport has accepted exactly the frame. -/
theorem C12_glue_done (nb : Bool) : ∀ (ws : List World) (data wire : Bytes),
    (sendLoop nb ws data wire).1 = .done → (sendLoop nb ws data wire).2 = wire ++ data := by
  intro ws
  induction ws with
  | nil =>
    intro data wire h
    cases data with
    | nil => simp [sendLoop]
    | cons b bs => simp [sendLoop] at h
  | cons w rest ih =>
    intro data wire
    cases data with
    | nil => intro _; simp [sendLoop]
    | cons b bs =>
      rw [sendLoop]
      generalize send nb w.r1 w.ready w.r2 = o
      cases o with
      | ok v =>
        cases v with
        | none => exact ih (b :: bs) wire
        | some n =>
          intro h
          have := ih ((b :: bs).drop n) (wire ++ (b :: bs).take n) h
          rw [this, List.append_assoc, List.take_append_drop]
      | timeout => intro h; simp at h
      | closed => intro h; simp at h
      | own r => intro h; simp at h

/-- **C12_glue_would_block** — a `_socket.send` whose wait for writability expired (it returned None: `data[None:]`) changes
    nothing: the loop goes on with the same bytes, nothing lost, nothing written twice. -/
theorem C12_glue_would_block (nb : Bool) (w : World) (ws : List World) (data wire : Bytes)
    (h : send nb w.r1 w.ready w.r2 = .ok none) :
    sendLoop nb (w :: ws) data wire = sendLoop nb ws data wire := by
  cases data with
  | nil => cases ws <;> simp [sendLoop]
  | cons b bs => rw [sendLoop, h]

/-- **C12_glue_raised** — when the loop raises, it raises what that `_socket.send` call raised: TIMEOUT, CLOSED, or an
    exception the transport itself raised in that call (`C17_glue_send` says which) — never a value dressed up as an error. -/
theorem C12_glue_raised (nb : Bool) : ∀ (ws : List World) (data wire : Bytes) (o : OutS),
    (sendLoop nb ws data wire).1 = .raised o →
    (∃ w ∈ ws, send nb w.r1 w.ready w.r2 = o) ∧ ∀ v, o ≠ .ok v := by
  intro ws
  induction ws with
  | nil =>
    intro data wire o h
    cases data <;> simp [sendLoop] at h
  | cons w rest ih =>
    intro data wire o
    cases data with
    | nil => intro h; simp [sendLoop] at h
    | cons b bs =>
      rw [sendLoop]
      cases hs : send nb w.r1 w.ready w.r2 with
      | ok v =>
        cases v with
        | none =>
          intro h
          obtain ⟨⟨w', hw', e⟩, h2⟩ := ih (b :: bs) wire o h
          exact ⟨⟨w', List.mem_cons_of_mem _ hw', e⟩, h2⟩
        | some n =>
          intro h
          obtain ⟨⟨w', hw', e⟩, h2⟩ := ih _ _ o h
          exact ⟨⟨w', List.mem_cons_of_mem _ hw', e⟩, h2⟩
      | timeout => intro h; simp at h; subst h; exact ⟨⟨w, List.mem_cons_self, hs⟩, by simp⟩
      | closed => intro h; simp at h; subst h; exact ⟨⟨w, List.mem_cons_self, hs⟩, by simp⟩
      | own r => intro h; simp at h; subst h; exact ⟨⟨w, List.mem_cons_self, hs⟩, by simp⟩

/-- every world accepts at least one byte: the first outcome, or — would block, then ready — the second -/
def Progress (nb : Bool) (w : World) : Prop := ∃ n, 0 < n ∧ send nb w.r1 w.ready w.r2 = .ok (some n)

/-- **C12_glue_terminates** — if each `_socket.send` call accepts at least one byte, `len(frame)` calls are enough: the loop
    is done (no cut), for every pattern of short writes and would-blocks that resolve. -/
theorem C12_glue_terminates (nb : Bool) : ∀ (ws : List World) (data wire : Bytes),
    (∀ w ∈ ws, Progress nb w) → data.length ≤ ws.length → (sendLoop nb ws data wire).1 = .done := by
  intro ws
  induction ws with
  | nil =>
    intro data wire _ hl
    cases data with
    | nil => simp [sendLoop]
    | cons b bs => simp at hl
  | cons w rest ih =>
    intro data wire hp hl
    cases data with
    | nil => simp [sendLoop]
    | cons b bs =>
      obtain ⟨n, hn, hs⟩ := hp w List.mem_cons_self
      rw [sendLoop, hs]
      refine ih _ _ (fun w' hw' => hp w' (List.mem_cons_of_mem _ hw')) ?_
      simp only [List.length_drop, List.length_cons] at hl ⊢
      omega

/-- non-vacuity, executed: a 5-byte frame against [accepts 2] [would block, wait expires] [would block, then ready: accepts 1]
    [SSL want-write, ready: accepts 9]: done, the wire holds exactly the frame, 4 calls. And a timeout after 2 bytes: the wire
    holds the 2-byte prefix. -/
example :
    sendLoop false [⟨.accepted 2, false, .osErr⟩, ⟨.again, false, .osErr⟩, ⟨.again, true, .accepted 1⟩,
                    ⟨.wantWrite, true, .accepted 9⟩] [1, 2, 3, 4, 5] [] = (.done, [1, 2, 3, 4, 5]) ∧
    calls false [⟨.accepted 2, false, .osErr⟩, ⟨.again, false, .osErr⟩, ⟨.again, true, .accepted 1⟩,
                 ⟨.wantWrite, true, .accepted 9⟩] [1, 2, 3, 4, 5] = 4 ∧
    sendLoop false [⟨.accepted 2, false, .osErr⟩, ⟨.timeoutErr, false, .osErr⟩] [1, 2, 3, 4, 5] [] =
      (.raised .timeout, [1, 2]) := by decide

end WS.Props.C12d
