/-
  WS.Props.C08b — C08, "close() itself returns within its timeout whether or not the server answers":
  the silent peer.
-/
import WS.Lemmas.CloseTime
import WS.Props.C08
namespace WS.Props.C08b
open WS WS.Model WS.Spec WS.Lemmas.Frame WS.Lemmas.RecvStrict WS.Lemmas.Parser WS.Lemmas.ShortWrites WS.Lemmas.Loop WS.Lemmas.CloseTime

/-- **C08_close_silent** — against a peer that never answers (nothing buffered, nothing in flight, every transport
    read times out), `close(status, reason, timeout=t)` on a connected object — for EVERY in-range status, every
    reason, every `t` (0 included), every short-write pattern of the transport —
    * writes exactly ONE frame, the close frame carrying `be16(status) ++ reason` (formatted with the next key),
    * returns normally after EXACTLY `t` milliseconds of (virtual) time: one timed-out read, never a second one,
    * and leaves the object released: `sock is None`, `connected = False`, transport closed. -/
theorem C08_close_silent (c : Conn) (s : Int) (r : Bytes) (t : Nat)
    (hs : 0 ≤ s ∧ s < 65536) (hc : c.connected = true) (hw : Writable c) (hsil : Silent c) (hr : r.length + 2 < 2 ^ 63) :
    ∃ w, format (createFrame (beN 2 s.toNat ++ r) Gen.opcodeClose) (c.keys.headD [0, 0, 0, 0]) = .ok w ∧
      (c.close s r (some t)).1 = none ∧ (c.close s r (some t)).2.sock.clock = c.sock.clock + t ∧
      (c.close s r (some t)).2.sock.wire = c.sock.wire ++ w ∧ (c.close s r (some t)).2.hasSock = false ∧
      (c.close s r (some t)).2.connected = false ∧ (c.close s r (some t)).2.sock.closed = true := by
  have h16 : (Gen.length16 : Int) = 65536 := by decide
  have hop : Gen.opcodeClose ∈ Gen.opcodes := by decide
  have hrange : (decide (s < 0) || decide (s ≥ 65536)) = false := by simp; omega
  have hlen : (beN 2 s.toNat ++ r).length < 2 ^ 63 := by simp [beN_length]; omega
  -- the close frame goes out
  let c0 : Conn := { c with connected := false, ownCloses := c.ownCloses + 1 }
  have hw0 : Writable c0 := hw
  obtain ⟨w, c1, hfmt, e1, hwire1, hw1, sr1⟩ := send_ok c0 (beN 2 s.toNat ++ r) Gen.opcodeClose hw0 hop hlen
  have hclk1 : c1.sock.clock = c.sock.clock := by
    have := send_clock c0 (beN 2 s.toNat ++ r) Gen.opcodeClose
    rw [e1] at this; exact this
  obtain ⟨b1, b2, b3, _, _, _, _, _, _, b10, b11, b12, b13, _⟩ := sr1
  have hsock1 : c1.hasSock = true := hw1.1
  -- the state in which the wait loop starts
  have hsil2 : Silent ({ c1 with sock := { c1.sock with timeoutMs := some t } } : Conn) :=
    ⟨hsock1, hw1.2.1, by show c1.buf = []; rw [b1]; exact hsil.buf,
     by show c1.sock.inp = []; rw [b2]; exact hsil.inp, by show c1.sock.tail = .timeout; rw [b13]; exact hsil.tail,
     by show c1.hdr = none; rw [b3]; exact hsil.hdr⟩
  have hns : (!c1.hasSock) = false := by simp [hsock1]
  refine ⟨w, hfmt, ?_⟩
  unfold Conn.close
  rw [h16]
  simp only [hc, hrange, Bool.not_true, Bool.false_eq_true, if_false]
  rw [e1]
  simp only [hns, Bool.false_eq_true, if_false]
  -- fuel of the wait loop is positive
  obtain ⟨fu, hfu⟩ : ∃ fu, ({ c1 with sock := { c1.sock with timeoutMs := some t } } : Conn).sock.size +
      ({ c1 with sock := { c1.sock with timeoutMs := some t } } : Conn).buf.length + 2 = fu + 1 := ⟨_, rfl⟩
  rw [hfu]
  unfold Conn.closeWait
  by_cases ht : t = 0
  · subst ht
    simp only [Nat.sub_self, Nat.lt_irrefl, decide_false, Bool.not_false, if_true, hns,
      Bool.false_eq_true, if_false]
    refine ⟨by trivial, ?_, ?_, ?_, ?_, ?_⟩
    · simp [Conn.shutdown, hsock1, Sock.shutdown, Sock.close, hclk1]
    · simp [Conn.shutdown, hsock1, Sock.shutdown, Sock.close, Sock.wire] ; simpa [Sock.wire] using hwire1
    · simp [Conn.shutdown, hsock1]
    · simp [Conn.shutdown, hsock1]
    · simp [Conn.shutdown, hsock1, Sock.shutdown, Sock.close]
  · have hpos : 0 < t := Nat.pos_of_ne_zero ht
    simp only [Nat.sub_self, hpos, decide_true, Bool.not_true, Bool.false_eq_true, if_false]
    rw [recvFrame_silent _ hsil2]
    simp only [hns, Bool.false_eq_true, if_false]
    refine ⟨by trivial, ?_, ?_, ?_, ?_, ?_⟩
    · simp [Conn.shutdown, hsock1, Sock.shutdown, Sock.close, hclk1]
    · simp [Conn.shutdown, hsock1, Sock.shutdown, Sock.close, Sock.wire] ; simpa [Sock.wire] using hwire1
    · simp [Conn.shutdown, hsock1]
    · simp [Conn.shutdown, hsock1]
    · simp [Conn.shutdown, hsock1, Sock.shutdown, Sock.close]

/-- non-vacuity and a concrete instance: `close(1000, "", 3 s)` on a fresh connection whose peer is silent. -/
example : (({ sock := { tail := .timeout } } : Conn).close 1000 [] (some 3000)).2.sock.clock = 3000 := by decide

end WS.Props.C08b
