/-
  WS.Props.C08b — C08, "close() itself returns within its timeout whether or not the server answers":
  the silent peer.
-/
import WS.Lemmas.CloseTime
import WS.Lemmas.CloseAnswered
import WS.Props.C08
namespace WS.Props.C08b
open WS WS.Model WS.Spec WS.Lemmas.Frame WS.Lemmas.RecvStrict WS.Lemmas.Parser WS.Lemmas.Stream WS.Lemmas.ShortWrites WS.Lemmas.Loop WS.Lemmas.CloseTime WS.Lemmas.CloseAnswered

/-- **C08_close_silent** — against a peer that never answers (nothing buffered, nothing in flight, every transport
    read times out), `close(status, reason, timeout=t)` on a connected object — for EVERY in-range status, every
    reason, every `t` (0 included), every short-write pattern of the transport —
    * writes exactly ONE frame, the close frame carrying `be16(status) ++ reason` (formatted with the next key),
    * returns normally after EXACTLY `t` milliseconds of (virtual) time: one timed-out read, never a second one,
    * and leaves the object released: `sock is None`, `connected = False`, transport closed. -/
theorem C08_close_silent (c : Conn) (s : Int) (r : Bytes) (t : Nat)
    (hs : 0 ≤ s ∧ s < 65536) (hc : c.connected = true) (hw : Writable c) (hsil : Silent c) (hr : r.length + 2 < 2 ^ 63) :
    ∃ w, format (createFrame (beN 2 s.toNat ++ r) Gen.opcodeClose) (c.keys.headD [0, 0, 0, 0]) = .ok w ∧
      (c.close s r (some t)).1 = none ∧ (c.close s r (some t)).2.sock.clock = c.sock.clock + t ∧
      (c.close s r (some t)).2.sock.wire = c.sock.wire ++ w ∧ (c.close s r (some t)).2.hasSock = false ∧
      (c.close s r (some t)).2.connected = false ∧ (c.close s r (some t)).2.sock.closed = true := by
  have h16 : (Gen.length16 : Int) = 65536 := by decide
  have hop : Gen.opcodeClose ∈ Gen.opcodes := by decide
  have hrange : (decide (s < 0) || decide (s ≥ 65536)) = false := by simp; omega
  have hlen : (beN 2 s.toNat ++ r).length < 2 ^ 63 := by simp [beN_length]; omega
  -- the close frame goes out
  let c0 : Conn := { c with connected := false, ownCloses := c.ownCloses + 1 }
  have hw0 : Writable c0 := hw
  obtain ⟨w, c1, hfmt, e1, hwire1, hw1, sr1⟩ := send_ok c0 (beN 2 s.toNat ++ r) Gen.opcodeClose hw0 hop hlen
  have hclk1 : c1.sock.clock = c.sock.clock := by
    have := send_clock c0 (beN 2 s.toNat ++ r) Gen.opcodeClose
    rw [e1] at this; exact this
  obtain ⟨b1, b2, b3, _, _, _, _, _, _, b10, b11, b12, b13, _⟩ := sr1
  have hsock1 : c1.hasSock = true := hw1.1
  -- the state in which the wait loop starts
  have hsil2 : Silent ({ c1 with sock := { c1.sock with timeoutMs := some t } } : Conn) :=
    ⟨hsock1, hw1.2.1, by show c1.buf = []; rw [b1]; exact hsil.buf,
     by show c1.sock.inp = []; rw [b2]; exact hsil.inp, by show c1.sock.tail = .timeout; rw [b13]; exact hsil.tail,
     by show c1.hdr = none; rw [b3]; exact hsil.hdr⟩
  have hns : (!c1.hasSock) = false := by simp [hsock1]
  refine ⟨w, hfmt, ?_⟩
  unfold Conn.close
  rw [h16]
  simp only [hc, hrange, Bool.not_true, Bool.false_eq_true, if_false]
  rw [e1]
  simp only [hns, Bool.false_eq_true, if_false]
  -- fuel of the wait loop is positive
  obtain ⟨fu, hfu⟩ : ∃ fu, ({ c1 with sock := { c1.sock with timeoutMs := some t } } : Conn).sock.size +
      ({ c1 with sock := { c1.sock with timeoutMs := some t } } : Conn).buf.length + 2 = fu + 1 := ⟨_, rfl⟩
  rw [hfu]
  unfold Conn.closeWait
  by_cases ht : t = 0
  · subst ht
    simp only [Nat.sub_self, Nat.lt_irrefl, decide_false, Bool.not_false, if_true, hns,
      Bool.false_eq_true, if_false]
    refine ⟨by trivial, ?_, ?_, ?_, ?_, ?_⟩
    · simp [Conn.shutdown, hsock1, Sock.shutdown, Sock.close, hclk1]
    · simp [Conn.shutdown, hsock1, Sock.shutdown, Sock.close, Sock.wire] ; simpa [Sock.wire] using hwire1
    · simp [Conn.shutdown, hsock1]
    · simp [Conn.shutdown, hsock1]
    · simp [Conn.shutdown, hsock1, Sock.shutdown, Sock.close]
  · have hpos : 0 < t := Nat.pos_of_ne_zero ht
    simp only [Nat.sub_self, hpos, decide_true, Bool.not_true, Bool.false_eq_true, if_false]
    rw [recvFrame_silent _ hsil2]
    simp only [hns, Bool.false_eq_true, if_false]
    refine ⟨by trivial, ?_, ?_, ?_, ?_, ?_⟩
    · simp [Conn.shutdown, hsock1, Sock.shutdown, Sock.close, hclk1]
    · simp [Conn.shutdown, hsock1, Sock.shutdown, Sock.close, Sock.wire] ; simpa [Sock.wire] using hwire1
    · simp [Conn.shutdown, hsock1]
    · simp [Conn.shutdown, hsock1]
    · simp [Conn.shutdown, hsock1, Sock.shutdown, Sock.close]

/-- **C08_close_answered** — … and against a peer whose answer is already on its way (the transport holds any number of
    legal non-close frames followed by the peer's close frame, in any chunking, with nothing to wait for): `close()`
    writes its one close frame, reads exactly up to and including the peer's close frame (`tail`, whatever follows, is
    never read), takes NO time, and leaves the object released — for every timeout `t > 0`. -/
theorem C08_close_answered (c : Conn) (s : Int) (r : Bytes) (t : Nat) (fs : List WireFrame) (wc : WireFrame) (tail : Bytes)
    (hs : 0 ≤ s ∧ s < 65536) (hc : c.connected = true) (hrd : Ready c) (hr : r.length + 2 < 2 ^ 63) (ht : 0 < t)
    (hd : DecodesTo (pending c) (fs ++ [wc]) tail)
    (hval : ∀ w ∈ fs ++ [wc], validate (frameOfWire w) c.skipUtf8 = none)
    (hnc : ∀ w ∈ fs, (frameOfWire w).opcode ≠ Gen.opcodeClose) (hclose : (frameOfWire wc).opcode = Gen.opcodeClose) :
    ∃ w, format (createFrame (beN 2 s.toNat ++ r) Gen.opcodeClose) (c.keys.headD [0, 0, 0, 0]) = .ok w ∧
      (c.close s r (some t)).1 = none ∧ (c.close s r (some t)).2.sock.clock = c.sock.clock ∧
      (c.close s r (some t)).2.sock.wire = c.sock.wire ++ w ∧ (c.close s r (some t)).2.hasSock = false ∧
      (c.close s r (some t)).2.connected = false ∧ (c.close s r (some t)).2.sock.closed = true ∧
      pending (c.close s r (some t)).2 = tail := by
  have h16 : (Gen.length16 : Int) = 65536 := by decide
  have hop : Gen.opcodeClose ∈ Gen.opcodes := by decide
  have hrange : (decide (s < 0) || decide (s ≥ 65536)) = false := by simp; omega
  have hlen : (beN 2 s.toNat ++ r).length < 2 ^ 63 := by simp [beN_length]; omega
  let c0 : Conn := { c with connected := false, ownCloses := c.ownCloses + 1 }
  have hr0 : Ready c0 := ⟨hrd.live, hrd.chunks, hrd.cleared, hrd.writable⟩
  obtain ⟨w, c1, hfmt, e1, hwire1, hw1, sr1⟩ := send_ok c0 (beN 2 s.toNat ++ r) Gen.opcodeClose hr0.writable hop hlen
  have hclk1 : c1.sock.clock = c.sock.clock := by
    have := send_clock c0 (beN 2 s.toNat ++ r) Gen.opcodeClose
    rw [e1] at this; exact this
  have hr1 : Ready c1 := ready_of_send hr0 sr1 hw1
  have hp1 : pending c1 = pending c0 := pending_sameRecv sr1
  have hsk1 : c1.skipUtf8 = c.skipUtf8 := sr1.2.2.2.2.2.2.2.2.1
  have hsock1 : c1.hasSock = true := hw1.1
  have hns : (!c1.hasSock) = false := by simp [hsock1]
  -- the state in which the wait loop starts
  have hr2 : Ready ({ c1 with sock := { c1.sock with timeoutMs := some t } } : Conn) :=
    ⟨hr1.live, hr1.chunks, hr1.cleared, hr1.writable⟩
  have hd2 : DecodesTo (pending ({ c1 with sock := { c1.sock with timeoutMs := some t } } : Conn)) (fs ++ [wc]) tail := by
    show DecodesTo (pending c1) (fs ++ [wc]) tail
    rw [hp1]; exact hd
  have hfu : fs.length < ({ c1 with sock := { c1.sock with timeoutMs := some t } } : Conn).sock.size +
      ({ c1 with sock := { c1.sock with timeoutMs := some t } } : Conn).buf.length + 2 := by
    have h1 := decodesTo_len hd2
    have h2 := bytesOf_le_size c1.sock.inp
    simp [pending] at h1
    show fs.length < c1.sock.size + c1.buf.length + 2
    unfold Sock.size
    omega
  obtain ⟨c3, e3, p3, k3, r3, tm3, w3⟩ := closeWait_answered fs _ wc tail t _ hr2 hd2
    (by intro x hx; show validate (frameOfWire x) c1.skipUtf8 = none; rw [hsk1]; exact hval x hx) hnc hclose ht hfu
  have hsock3 : c3.hasSock = true := r3.live.1
  have hns3 : (!c3.hasSock) = false := by simp [hsock3]
  refine ⟨w, hfmt, ?_⟩
  unfold Conn.close
  rw [h16]
  simp only [hc, hrange, Bool.not_true, Bool.false_eq_true, if_false]
  rw [e1]
  simp only [hns, Bool.false_eq_true, if_false]
  rw [e3]
  simp only [hns3, Bool.false_eq_true, if_false]
  refine ⟨by trivial, ?_, ?_, ?_, ?_, ?_, ?_⟩
  · simp [Conn.shutdown, hsock3, Sock.shutdown, Sock.close]; rw [k3]; exact hclk1
  · simp [Conn.shutdown, hsock3, Sock.shutdown, Sock.close, Sock.wire]
    have : c3.sock.wire = c.sock.wire ++ w := by rw [w3]; exact hwire1
    simpa [Sock.wire] using this
  · simp [Conn.shutdown, hsock3]
  · simp [Conn.shutdown, hsock3]
  · simp [Conn.shutdown, hsock3, Sock.shutdown, Sock.close]
  · have : pending c3 = tail := p3
    simpa [Conn.shutdown, hsock3, Sock.shutdown, Sock.close, pending] using this

/-- non-vacuity and a concrete instance: `close(1000, "", 3 s)` on a fresh connection whose peer is silent. -/
example : (({ sock := { tail := .timeout } } : Conn).close 1000 [] (some 3000)).2.sock.clock = 3000 := by decide

/-- … and one whose peer's (empty) close frame is already there: no time passes, the frame is consumed. -/
example : (({ sock := { inp := [.chunk [0x88, 0x00]], tail := .timeout } } : Conn).close 1000 [] (some 3000)).2.sock.clock = 0 ∧
    pending (({ sock := { inp := [.chunk [0x88, 0x00]], tail := .timeout } } : Conn).close 1000 [] (some 3000)).2 = [] := by decide

end WS.Props.C08b
