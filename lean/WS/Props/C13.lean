/- WS.Props.C13 — property theorems for C13 (placeholder during construction) -/
import WS.Model.App
import WS.Spec.AppTrace
namespace WS.Props.C13
end WS.Props.C13
