/-
  WS.Props.C13 — property theorems for C13 (WebSocketApp delivers every event to its callback exactly
  once, in order, promptly; callback exceptions go to on_error and stop nothing).
  Model: WS.Model.App (run_forever + built-in dispatchers).  Spec: WS.Spec.AppTrace.expectedConn.
  Helper lemmas: WS.Lemmas.App*.
-/
import WS.Lemmas.AppRun
namespace WS.Props.C13
open WS WS.Model.App WS.Lemmas.App
open WS.Spec.AppTrace (cbOnly expectedConn expectedDeliveries reportTrace)

/-- generated facts the theorem rests on: `read()` passes the message's opcode to on_data (F4 repaired)
    and calls on_data before on_message. -/
theorem read_shape : Gen.appOnDataMsgOpcode = true ∧ Gen.appDataBeforeMessage = true := by decide

/-- **C13_trace** — for every legal traffic history `legal` (complete text/binary messages, fragmented
    or not, pings, pongs, with any gaps and bursts), every subset of callbacks set (`c.has`), every plan
    in which callbacks return or raise (`Quiet`), plain and TLS-style transport (`c.ssl`): the callbacks
    observed during the run are, in this order and at these ticks, exactly the Spec trace
    `expectedConn` -- on_open first, then for each event its callbacks once, at its arrival time, text
    as str / binary as bytes with the message's opcode, each raising callback followed by
    on_error(its exception), nothing lost after an exception -- followed only by the on_error / on_close
    calls that belong to the end of the run (C14). -/
theorem C13_trace (c : Cfg) (hq : Quiet c) (hacc : argsAccepted c.iv c.to = true) (hiv : c.iv = 0)
    (hrc : c.reconnect = 0) (s0 : St) (legal : List TEv) (te : TEv)
    (hs : s0.sock = none) (hp : s0.ping = none) (hl : s0.lastPing = 0)
    (hd : s0.dials = [.established (legal ++ [te])])
    (hleg : ∀ e ∈ legal, isLegal e.ev = true) (hterm : isTerm te.ev = true)
    (hfuel : need0 (selectTimeout c) (legal ++ [te]) + 1 ≤ c.fuel)
    (hz : endTime s0.now (legal ++ [te]) + secs Gen.closeTimeoutDefault ≤ c.horizon) :
    ∃ tail, cbOnly (runForever c s0).trace =
        cbOnly s0.trace ++ expectedConn c.has c.plan s0.calls s0.now .onOpen (legal ++ [te]) ++ tail ∧
      ∀ x ∈ tail, (∃ a, x.2 = .cb .onError a) ∨ (∃ a, x.2 = .cb .onClose a) := by
  obtain ⟨sT, w, hat, hw, hnow, htr, hcalls, hrun, _⟩ :=
    run_single c hq hacc hiv hrc s0 legal te hs hp hl hd hleg hterm hfuel (by omega)
  -- the part before the terminating event
  have hpre : cbOnly sT.trace =
      cbOnly s0.trace ++ expectedConn c.has c.plan s0.calls s0.now .onOpen (legal ++ [te]) := by
    rw [htr]
    obtain ⟨h1, _, _, _⟩ := runLegal_spec c legal (enterLoop c s0 (legal ++ [te]) []) hleg rfl
    rw [h1, enterLoop_cb]
    simp only [expectedConn, expectedDeliveries_term c.has s0.now legal te hleg hterm, reportTrace_append,
      List.append_assoc]
    congr 1
    rw [cbTrace_eq_report]
    congr 1
    show reportTrace c.has c.plan (cbCalls c s0.calls .onOpen) _ = _
    rw [cbCalls_eq_spec c s0.calls s0.now .onOpen []]
    rfl
  rw [hrun]
  have hz' : sT.now + secs Gen.closeTimeoutDefault ≤ c.horizon := by omega
  cases hk : te.ev with
  | message op p f => simp [hk, isTerm] at hterm
  | ping p => simp [hk, isTerm] at hterm
  | pong p => simp [hk, isTerm] at hterm
  | part => simp [hk, isTerm] at hterm
  | eof =>
    rw [end_eof c hq hrc sT te w hat hk]
    simp only [cbOnly_append, cbOnly_cbTrace, hpre, List.append_assoc]
    refine ⟨_, rfl, ?_⟩
    intro x hx
    simp only [cbOnly, List.filter_cons, List.filter_nil, Bool.false_eq_true, ↓reduceIte, List.mem_append,
      List.not_mem_nil, false_or, or_false] at hx
    rcases hx with hx | hx
    · rcases cbTrace_mem c _ _ _ _ x hx with h | h <;> exact Or.inl h
    · rcases cbTrace_mem c _ _ _ _ x hx with h | h
      · exact Or.inr h
      · exact Or.inl h
  | close b =>
    rw [end_close c hq sT te w b hat hk]
    simp only [cbOnly_append, cbOnly_cbTrace, hpre, List.append_assoc]
    refine ⟨_, rfl, ?_⟩
    intro x hx
    simp only [cbOnly, List.filter_cons, List.filter_nil, Bool.false_eq_true, ↓reduceIte, List.mem_append,
      List.not_mem_nil, false_or, or_false] at hx
    rcases cbTrace_mem c _ _ _ _ x hx with h | h
    · exact Or.inr h
    · exact Or.inl h
  | reset =>
    rw [end_reset c hq hrc sT te w hat hk]
    simp only [cbOnly_append, cbOnly_cbTrace, hpre, List.append_assoc]
    refine ⟨_, rfl, ?_⟩
    intro x hx
    simp only [cbOnly, List.filter_cons, List.filter_nil, Bool.false_eq_true, ↓reduceIte, List.mem_append,
      List.not_mem_nil, false_or, or_false] at hx
    rcases hx with hx | hx
    · rcases cbTrace_mem c _ _ _ _ x hx with h | h <;> exact Or.inl h
    · rcases cbTrace_mem c _ _ _ _ x hx with h | h
      · exact Or.inr h
      · exact Or.inl h
  | protoError =>
    rw [end_error c hq hrc sT te w .proto hat (Or.inl ⟨hk, rfl⟩) hz']
    simp only [cbOnly_append, cbOnly_cbTrace, hpre, List.append_assoc]
    refine ⟨_, rfl, ?_⟩
    intro x hx
    simp only [cbOnly, List.filter_cons, List.filter_nil, Bool.false_eq_true, ↓reduceIte, List.mem_append,
      List.not_mem_nil, false_or, or_false] at hx
    rcases hx with hx | hx
    · rcases cbTrace_mem c _ _ _ _ x hx with h | h <;> exact Or.inl h
    · rcases cbTrace_mem c _ _ _ _ x hx with h | h
      · exact Or.inr h
      · exact Or.inl h
  | payloadError =>
    rw [end_error c hq hrc sT te w .payload hat (Or.inr ⟨hk, rfl⟩) hz']
    simp only [cbOnly_append, cbOnly_cbTrace, hpre, List.append_assoc]
    refine ⟨_, rfl, ?_⟩
    intro x hx
    simp only [cbOnly, List.filter_cons, List.filter_nil, Bool.false_eq_true, ↓reduceIte, List.mem_append,
      List.not_mem_nil, false_or, or_false] at hx
    rcases hx with hx | hx
    · rcases cbTrace_mem c _ _ _ _ x hx with h | h <;> exact Or.inl h
    · rcases cbTrace_mem c _ _ _ _ x hx with h | h
      · exact Or.inr h
      · exact Or.inl h

/-- **C13_open_first** — on_open (when set) is the first callback of the connection and fires at the
    tick the connection is established, before any delivery. -/
theorem C13_open_first (c : Cfg) (hq : Quiet c) (hacc : argsAccepted c.iv c.to = true) (hiv : c.iv = 0)
    (hrc : c.reconnect = 0) (s0 : St) (legal : List TEv) (te : TEv)
    (hs : s0.sock = none) (hp : s0.ping = none) (hl : s0.lastPing = 0)
    (hd : s0.dials = [.established (legal ++ [te])])
    (hleg : ∀ e ∈ legal, isLegal e.ev = true) (hterm : isTerm te.ev = true)
    (hfuel : need0 (selectTimeout c) (legal ++ [te]) + 1 ≤ c.fuel)
    (hz : endTime s0.now (legal ++ [te]) + secs Gen.closeTimeoutDefault ≤ c.horizon)
    (hopen : c.has .onOpen = true) :
    ∃ rest, cbOnly (runForever c s0).trace = cbOnly s0.trace ++ (s0.now, .cb .onOpen []) :: rest := by
  obtain ⟨tail, h, _⟩ := C13_trace c hq hacc hiv hrc s0 legal te hs hp hl hd hleg hterm hfuel hz
  obtain ⟨rest, hr⟩ := expectedConn_head c.has c.plan s0.calls s0.now .onOpen (legal ++ [te]) hopen
  exact ⟨rest ++ tail, by rw [h, hr]; simp⟩

/-- **C13_prompt** (dispatcher side) — whenever the next event has arrived, `select` (plain `Dispatcher`
    and `SSLDispatcher` with its `pending()` test alike) returns at once and reports the socket readable:
    the loop never sleeps on an event that is already there, whatever else is going on (any state, any
    configuration).  Together with the ticks in `C13_trace` (each callback fires at its event's arrival
    tick): delivery does not wait for further traffic. -/
theorem C13_prompt (c : Cfg) (s : St) (h : s.arrived = true) : select c s = (s, some true) := by
  unfold select
  cases hev : s.evs with
  | nil => simp [St.arrived, St.nextAt, hev] at h
  | cons e rest =>
    have hr := ready_iff c s e rest hev
    have ha : s.arr + e.dt ≤ s.now := by simpa [St.arrived, St.nextAt, hev] using h
    simp only [ha, decide_true] at hr
    by_cases h1 : (c.ssl && s.pendingTls c) = true
    · simp [h1]
    · have h2 : s.rawReadable c = true := by
        cases hh : s.rawReadable c with
        | true => rfl
        | false => simp [hh] at hr; exact absurd hr (by simpa using h1)
      simp [h1, h2]

/-- non-vacuity: a concrete world (text, ping, fragmented binary, then end of stream), all callbacks set,
    on_message raising at its first call -- the hypotheses of `C13_trace` hold and the model's trace is the
    expected one. -/
example :
    let c : Cfg := { has := fun _ => true, plan := fun cb => if cb = .onMessage then [.raise] else [], iv := 0,
                     to := none, payload := [], reconnect := 0, ssl := true, horizon := 100000, fuel := 50 }
    let evs : List TEv := [⟨100, false, .message 1 [0x68] false⟩, ⟨0, true, .ping [0x70]⟩,
                           ⟨20000, false, .message 2 [1, 2] true⟩, ⟨5, false, .eof⟩]
    (cbOnly (runForever c { dials := [.established evs] }).trace).map (fun x => (x.1, match x.2 with | .cb n _ => n.name | _ => "")) =
      [(0, "on_open"), (100, "on_data"), (100, "on_message"), (100, "on_error"), (100, "on_ping"),
       (20100, "on_data"), (20100, "on_message"), (20105, "on_error"), (20105, "on_close")] := by
  decide

end WS.Props.C13
