/-
  WS.Props.C13b — keepalive without a ping timeout is transparent: the run with `ping_interval = iv` is, but for the ping
  thread's own events, the run with `ping_interval = 0` — and so `C13_trace` holds with keepalive on.
-/
import WS.Lemmas.AppKA
import WS.Props.C13
namespace WS.Props.C13b
open WS WS.Model.App WS.Lemmas.App WS.Lemmas.App.KA WS.Spec.AppTrace

/-- **C13_keepalive_transparent** — for EVERY configuration without a ping timeout and with `ping_interval ≥ 0` (callbacks set
    or not, plans that raise / close / interrupt, reconnect on or off, TLS-style or plain), every world of dial outcomes and
    server events, every schedule of the ping thread against the reading loop (`s0.sched`), every starting state: the run,
    with the ping thread's own events removed (thread start / exit, the PING frames), is EXACTLY the run with keepalive off —
    the same events at the same ticks (callbacks with their arguments, dials, sleeps, pongs, close frames, transports closed
    and dropped), the same outcome (return value or exception), the same final state but for the ping thread's fields. -/
theorem C13_keepalive_transparent (c : Cfg) (hto : c.to = none) (hiv : 0 ≤ c.iv) (s0 : St) :
    strip (runForever c s0).trace = (runForever (off c) (P s0)).trace ∧
    (runForeverO c s0).2 = (runForeverO (off c) (P s0)).2 ∧
    P (runForever c s0) = runForever (off c) (P s0) := by
  have h := P_runForeverO c hto hiv s0
  have h1 : P (runForeverO c s0).1 = (runForeverO (off c) (P s0)).1 := by have := congrArg Prod.fst h; exact this
  have h2 : (runForeverO c s0).2 = (runForeverO (off c) (P s0)).2 := by have := congrArg Prod.snd h; exact this
  refine ⟨?_, h2, h1⟩
  have := congrArg St.trace h1
  exact this

theorem cbOnly_strip (tr : Trace) : cbOnly (strip tr) = cbOnly tr := by
  simp only [cbOnly, strip, List.filter_filter]
  congr 1
  funext te
  cases h : te.2 <;> simp [isKA]

/-- **C13_trace_keepalive** — `C13_trace` with the ping thread running (any interval, no ping timeout), for every schedule
    of the ping thread: the callbacks observed are, in this order and at these ticks, exactly the Spec trace — on_open
    first, then for each event its callbacks once at its arrival time, each raising callback followed by on_error(its
    exception), nothing lost — followed only by the on_error / on_close calls that belong to the end of the run. -/
theorem C13_trace_keepalive (c : Cfg) (hq : Quiet c) (hto : c.to = none) (hiv : 0 ≤ c.iv)
    (hrc : c.reconnect = 0) (s0 : St) (legal : List TEv) (te : TEv)
    (hs : s0.sock = none)
    (hd : s0.dials = [.established (legal ++ [te])])
    (hleg : ∀ e ∈ legal, isLegal e.ev = true) (hterm : isTerm te.ev = true)
    (hfuel : need0 (selectTimeout c) (legal ++ [te]) + 1 ≤ c.fuel)
    (hz : endTime s0.now (legal ++ [te]) + secs Gen.closeTimeoutDefault ≤ c.horizon) :
    ∃ tail, cbOnly (runForever c s0).trace =
        cbOnly s0.trace ++ expectedConn c.has c.plan s0.calls s0.now .onOpen (legal ++ [te]) ++ tail ∧
      ∀ x ∈ tail, (∃ a, x.2 = .cb .onError a) ∨ (∃ a, x.2 = .cb .onClose a) := by
  obtain ⟨htr, _, _⟩ := C13_keepalive_transparent c hto hiv s0
  have hacc : argsAccepted (off c).iv (off c).to = true := by
    have h0 : (off c).iv = 0 := rfl
    have h1 : (off c).to = none := hto
    rw [h0, h1]; decide
  obtain ⟨tail, h1, h2⟩ := C13.C13_trace (off c) hq hacc rfl hrc (P s0) legal te hs rfl rfl hd hleg hterm hfuel hz
  refine ⟨tail, ?_, h2⟩
  rw [← cbOnly_strip, htr, h1]
  have : cbOnly (P s0).trace = cbOnly s0.trace := cbOnly_strip s0.trace
  rw [this]
  rfl

/-- **C13_open_first_keepalive** — on_open (when set) is the first callback of the connection and fires at the tick the
    connection is established, with the ping thread running. -/
theorem C13_open_first_keepalive (c : Cfg) (hq : Quiet c) (hto : c.to = none) (hiv : 0 ≤ c.iv)
    (hrc : c.reconnect = 0) (s0 : St) (legal : List TEv) (te : TEv)
    (hs : s0.sock = none)
    (hd : s0.dials = [.established (legal ++ [te])])
    (hleg : ∀ e ∈ legal, isLegal e.ev = true) (hterm : isTerm te.ev = true)
    (hfuel : need0 (selectTimeout c) (legal ++ [te]) + 1 ≤ c.fuel)
    (hz : endTime s0.now (legal ++ [te]) + secs Gen.closeTimeoutDefault ≤ c.horizon)
    (hopen : c.has .onOpen = true) :
    ∃ rest, cbOnly (runForever c s0).trace = cbOnly s0.trace ++ (s0.now, .cb .onOpen []) :: rest := by
  obtain ⟨tail, h, _⟩ := C13_trace_keepalive c hq hto hiv hrc s0 legal te hs hd hleg hterm hfuel hz
  obtain ⟨rest, hr⟩ := expectedConn_head c.has c.plan s0.calls s0.now .onOpen (legal ++ [te]) hopen
  exact ⟨rest ++ tail, by rw [h, hr]; simp⟩

/-- non-vacuity, executed: interval 1 s, no timeout, a text message at 2.5 s and end of stream at 4 s: the keepalive run has
    ping events; without them its trace is the trace of the run with keepalive off. -/
example :
    let c : Cfg := { has := fun _ => true, plan := fun _ => [], iv := 1024, to := none, payload := [],
                     reconnect := 0, ssl := false, horizon := 20000, fuel := 50 }
    let s0 : St := { dials := [.established [{ dt := 2560, burst := false, ev := .message 1 [0x68] false },
                                              { dt := 1536, burst := false, ev := .eof }]], sched := [true, false] }
    ((runForever c s0).trace.any fun te => isKA te.2) = true ∧
    strip (runForever c s0).trace = (runForever (off c) (P s0)).trace := by decide +kernel

end WS.Props.C13b
