/-
  WS.Props.C09 — a connection is reported established only after a valid upgrade response.
  Helper lemmas live in WS.Lemmas.Handshake / WS.Lemmas.Connect.

  Model: WS.Model.Connect.connect = `WebSocket.connect` over `_http.connect`, `handshake`,
         `_get_resp_headers`, `_validate`, `read_headers` (WS.Model.{Http,Handshake,Connect}).
  Spec:  WS.Spec.Handshake.established (RFC 6455 §4.1; the property text).
  The digest function `acceptOf` (a field of `env`), `parse_url` and the proxy decision are
  parameters: the theorems hold for every such function and for every world (scripted dials,
  responses byte by byte with timeouts / resets / end of stream anywhere, TLS outcomes, random
  draws, jar contents).
-/
import WS.Lemmas.Connect
namespace WS.Props.C09
open WS WS.PyH2 WS.H2 WS.Model.Http WS.Model.Handshake WS.Model.Connect WS.Spec.Handshake
open WS.Lemmas.Handshake WS.Lemmas.Connect

/-- generated tables and shape facts the theorems rest on (T) — each is false of the pinned commit
    or of a tree where the corresponding repair is reverted / a constant is changed:
    `connect()` raises when the response left after the loop is still a redirect (F6);
    the accept comparison is exact (F7); the redirect / success status tuples; the headers
    `_validate` checks; the default redirect limit. -/
theorem generated_facts :
    Gen.h2RedirectFinalCheck = true ∧ Gen.h2AcceptCaseFold = false ∧
    Gen.redirectStatuses = [301, 302, 303, 307, 308] ∧
    Gen.successStatuses = [301, 302, 303, 307, 308, 101] ∧
    Gen.headersToCheck = [["upgrade", "websocket"], ["connection", "upgrade"]] ∧
    Gen.redirectLimitDefault = 3 ∧ Gen.guid = "258EAFA5-E914-47DA-95CA-C5AB0DC85B11" := by decide

/-- **C09_only_if** — whenever `connect` returns, the object is connected and the last response
    `r` (the one `self.handshake_response` holds) has status 101, announces `websocket` in
    Upgrade and `upgrade` in Connection, carries *exactly* `acceptOf key` where `key` is the key
    of the request that was written on the very transport the object now holds (`Sent`), and —
    when subprotocols were offered — selects one of them.  At most `limit` redirects were
    followed (`dials ≤ limit + 1`), and every other transport that was opened has been closed. -/
theorem C09_only_if (env : Env) (world : Nat → Dial) (url : Str) (o : Opts) (limit : Option Nat)
    (userSock : Option Sock) (out : Out) (hout : connect env world url o limit userSock {} = out)
    (hok : out.res = .ok ()) :
    out.obj.connected = true ∧
    (∃ r cur, out.obj.resp = some r ∧ out.obj.sock = some cur ∧ Sent world o out.trace cur r ∧
      established env.acceptOf ⟨some r.status, r.headers⟩ r.key o.subprotocols = true ∧
      isRedirect (some r.status) = false) ∧
    out.dials ≤ limit.getD Gen.redirectLimitDefault + 1 ∧
    AllClosedBut out.trace out.obj.sock := by
  subst hout
  have hp := connect_post env world url o limit userSock
  obtain ⟨hconn, hacb, r, cur, hr, hs, hsent, hest⟩ := hp.ok hok
  refine ⟨hconn, ⟨r, cur, hr, hs, hsent, hest, ?_⟩, by have := hp.dials_le; omega, hacb⟩
  -- a redirect is never itself success
  have h101 : r.status = 101 := by
    unfold established clStatus at hest
    simp only [Bool.and_eq_true, decide_eq_true_eq] at hest
    exact Option.some.inj hest.1.1.1.1
  rw [h101]; decide

/-- **C09_failure_clean** — whenever `connect` raises (any exception, at any point: dial, proxy
    tunnel, TLS, write, any byte of any response, redirect without target, limit exhausted …),
    the object is left unconnected with `sock = None` and every transport that was opened during
    the call — including a socket supplied by the caller — has been closed. -/
theorem C09_failure_clean (env : Env) (world : Nat → Dial) (url : Str) (o : Opts) (limit : Option Nat)
    (userSock : Option Sock) (out : Out) (hout : connect env world url o limit userSock {} = out)
    (e : HExn) (herr : out.res = .error e) :
    out.obj.connected = false ∧ out.obj.sock = none ∧
    ∀ j, (∃ u, Ev.dial j u ∈ out.trace ∨ Ev.adopt j u ∈ out.trace) → Ev.close j ∈ out.trace := by
  subst hout
  have hp := (connect_post env world url o limit userSock).err e herr
  refine ⟨hp.unconnected, hp.sock_none, ?_⟩
  intro j hj
  rcases hp.closed j hj with h | h
  · cases h
  · exact h

/-- **C09_redirect_bound** — whatever the outcome, at most `limit + 1` calls of `_http.connect`
    are made (`limit` = the `redirect_limit` option, default `Gen.redirectLimitDefault` = 3). -/
theorem C09_redirect_bound (env : Env) (world : Nat → Dial) (url : Str) (o : Opts) (limit : Option Nat)
    (userSock : Option Sock) :
    (connect env world url o limit userSock {}).dials ≤ limit.getD Gen.redirectLimitDefault + 1 := by
  have := (connect_post env world url o limit userSock).dials_le
  omega

/-- **C09_key_binding** — `_validate` accepts only a response whose accept header holds
    `acceptOf key` for the key of *this* request: a response carrying `acceptOf key'` for any other
    key (a previous attempt's, a replayed one) with `acceptOf key' ≠ acceptOf key` is rejected.
    (Injectivity of the concrete digest on the keys drawn is evaluated in the correspondence runs.) -/
theorem C09_key_binding (acceptOf : Str → Str) (hdrs : Dict) (key key' : Str) (subs : List Str)
    (hother : dictGetTruthy hdrs "sec-websocket-accept".toList = some (acceptOf key'))
    (hne : acceptOf key' ≠ acceptOf key) :
    (validate acceptOf hdrs key subs).1 = false := by
  cases hv : validate acceptOf hdrs key subs with
  | mk okb sp =>
    cases okb with
    | false => rfl
    | true =>
      have := validate_accept acceptOf hdrs key subs sp hv
      rw [hother] at this
      exact absurd (Option.some.inj this) hne

/-- the same for a whole `handshake`: if it returns a non-redirect response, the accept header of
    that response is `acceptOf` of the key of the request just written — so a response carrying
    the digest of another attempt's key (different digest) makes `handshake` raise. -/
theorem C09_key_binding_handshake (acceptOf : Str → Str) (s : Sock) (url : Str) (u : UrlParts) (o : Opts)
    (rand : Bytes) (jar : Str) (r : HsResp) (s' : Sock) (io : List IoEv)
    (h : handshake acceptOf s url u o rand jar = (.ok r, s', io))
    (hnot : isRedirect (some r.status) = false) :
    dictGetTruthy r.headers "sec-websocket-accept".toList = some (acceptOf r.key) ∧
    ∃ lines, getHandshakeHeaders u.resource url u.host u.port o rand jar = .ok (lines, r.key) := by
  obtain ⟨_, ⟨lines, _, hl, _⟩, hacc⟩ := handshake_sound acceptOf s url u o rand jar r s' io h
  exact ⟨hacc (by rw [redirect_iff]; exact hnot), lines, hl⟩

/-! ### non-vacuity: the model does connect, does follow a redirect, does raise -/

private def demoEnv : Env :=
  { acceptOf := fun _ => "x".toList
    parseUrl := fun _ => .ok ⟨"h".toList, 80, "/".toList, false⟩
    proxy := fun _ => {}
    sslopt := {}
    tlsEnv := {} }

private def bytesOf (s : String) : List HEv := (encodeUtf8 s.toList).map HEv.byte

private def good : Dial :=
  { sock := ⟨bytesOf "HTTP/1.1 101 OK\r\nUpgrade: websocket\r\nConnection: Upgrade\r\nSec-WebSocket-Accept: x\r\n\r\n", .eof, none⟩ }

private def moved : Dial :=
  { sock := ⟨bytesOf "HTTP/1.1 301 Moved\r\nLocation: ws://b/\r\n\r\n", .eof, none⟩ }

/-- a valid response connects; a redirect is followed to a valid response; with the limit
    exhausted the call raises BADSTATUS(301) and leaves nothing open (F6 repaired); a wrong accept
    value raises. -/
example :
    (connect demoEnv (fun _ => good) "ws://a/".toList {} none none {}).res = .ok () ∧
    (connect demoEnv (fun i => if i = 0 then moved else good) "ws://a/".toList {} none none {}).dials = 2 ∧
    (connect demoEnv (fun i => if i = 0 then moved else good) "ws://a/".toList {} none none {}).res = .ok () ∧
    (connect demoEnv (fun _ => moved) "ws://a/".toList {} (some 1) none {}).res = .error (.badstatus (some 301)) ∧
    (connect demoEnv (fun _ => moved) "ws://a/".toList {} (some 1) none {}).dials = 2 ∧
    (connect { demoEnv with acceptOf := fun _ => "y".toList } (fun _ => good) "ws://a/".toList {} none none {}).res
      = .error .wsgeneric := by
  decide +kernel

end WS.Props.C09
