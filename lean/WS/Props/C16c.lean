/-
  WS.Props.C16c — C16, the interleaving of the ping thread with `check()` itself (finding F19).
  The App / Keepalive models treat `check()` as one atomic evaluation of (now, last_ping_tm, last_pong_tm).  The pinned
  commit's `check()` read `self.last_ping_tm` four times (expiry test, two pong tests, the truthiness guard) while the ping
  thread stamps it concurrently; `checkTorn` is that function with the four reads made explicit.  With a single read it IS
  the modelled predicate (`checkTorn_single`) — which is what the repaired code does (generated fact
  `appCheckReadsPingOnce`) — and a single read taken at or after the stamp never reports at the tick of the stamp; with
  torn reads a peer that has not even been pinged yet is reported at the tick of the first ping
  (`C16_torn_read_counterexample`, replayed on the real code by `harness/props/c16.py::run_check_race`).
-/
import WS.Model.App
namespace WS.Props.C16c
open WS WS.Model WS.Model.App

/-- `check()` with its reads of `self.last_ping_tm` made explicit: `r1` in `time.time() - last_ping_tm > ping_timeout`,
    `r2` in `last_pong_tm - last_ping_tm < 0`, `r3` in `last_pong_tm - last_ping_tm > ping_timeout`, `r4` in the guard
    `if self.last_ping_tm and …`.  `last_pong_tm` is written by the checking thread itself and cannot change in between. -/
def checkTorn (to : Int) (now lastPong r1 r2 r3 r4 : Nat) : Bool :=
  to ≠ 0 && r4 ≠ 0 &&
  decide ((now : Int) - r1 > to) &&
  (decide ((lastPong : Int) - r2 < 0) || decide ((lastPong : Int) - r3 > to))

/-- the source reads the stamp once (regenerated from /repo on every run; F19's repair) -/
theorem check_reads_ping_once_in_source : Gen.appCheckReadsPingOnce = true := by decide

/-- **checkTorn_single** — when all reads see the same value (one read: the repaired code), the torn check is exactly the
    predicate the App model uses, for every state and setting. -/
theorem checkTorn_single (c : Cfg) (s : St) (to : Int) (h : c.to = some to) :
    checkFails c s = checkTorn to s.now s.lastPong s.lastPing s.lastPing s.lastPing s.lastPing := by
  simp [checkFails, checkTorn, h]

/-- **C16_single_read_quiet_at_stamp** — with ONE read, whatever value it returns (the stamp before the ping thread's
    write or after it), `check()` does not report at a tick `now ≤ stamp + to`: in particular never at the tick of the stamp,
    and never for a ping that is not yet `to` old.  (`to ≥ 0`: accepted settings.) -/
theorem C16_single_read_quiet_at_stamp (to : Int) (hto : 0 ≤ to) (now lastPong lp : Nat) (h : (now : Int) ≤ lp + to) :
    checkTorn to now lastPong lp lp lp lp = false := by
  unfold checkTorn
  have : ¬ ((now : Int) - lp > to) := by omega
  simp [this]

/-- **C16_single_read_answered_quiet** — with ONE read, a stamp whose ping has been answered in time
    (`lp ≤ lastPong ≤ lp + to`) is never reported, however late `check()` runs. -/
theorem C16_single_read_answered_quiet (to : Int) (now lastPong lp : Nat) (h1 : lp ≤ lastPong) (h2 : (lastPong : Int) ≤ lp + to) :
    checkTorn to now lastPong lp lp lp lp = false := by
  unfold checkTorn
  have a : ¬ ((lastPong : Int) - lp < 0) := by omega
  have b : ¬ ((lastPong : Int) - lp > to) := by omega
  simp [a, b]

/-- **C16_torn_read_counterexample** (the former behaviour, F19) — interval 2 s, timeout 1 s, `check()` runs at tick 4096
    where the first ping is due; no ping has been sent (`last_ping_tm = 0`, `last_pong_tm = 0`).  The expiry test reads 0
    (4096 − 0 > 1024), the ping thread stamps 4096 and sends the ping, the remaining reads see 4096: "pong not arrived",
    guard truthy → a ping/pong timeout is reported at the very tick of the first ping. -/
theorem C16_torn_read_counterexample : checkTorn 1024 4096 0 0 4096 4096 4096 = true := by decide

/-- the same race later in a connection: ping at 4096 answered at 4097; at 6144 the expiry test reads the answered stamp
    4096 (6144 − 4096 > 1024), the ping thread re-stamps 6144, "pong not arrived" (4097 − 6144 < 0) → a peer that answers
    every ping after one tick is reported. -/
theorem C16_torn_read_counterexample_later : checkTorn 1024 6144 4097 4096 6144 6144 6144 = true := by decide

/-- and with one read neither of the two situations reports, whichever value the read returns -/
example : checkTorn 1024 4096 0 0 0 0 0 = false ∧ checkTorn 1024 4096 0 4096 4096 4096 4096 = false ∧
          checkTorn 1024 6144 4097 4096 4096 4096 4096 = false ∧ checkTorn 1024 6144 4097 6144 6144 6144 6144 = false := by decide

/-! ### the two stamps under interleaving: test-then-assign in one thread, the other thread's whole step in between -/

/-- the two keepalive stamps (shared, unlocked) -/
structure Stamps where
  lastPing : Nat
  lastPong : Nat
  deriving DecidableEq, Repr

/-- `_send_ping`: `if self.last_pong_tm >= self.last_ping_tm: self.last_ping_tm = now` (generated fact `appPingStampWhenAnswered`) -/
def pingStep (now : Nat) (s : Stamps) : Stamps := if s.lastPong ≥ s.lastPing then { s with lastPing := now } else s

/-- `read()` at a pong: `if self.last_pong_tm < self.last_ping_tm: self.last_pong_tm = now` (`appPongStampWhenOutstanding`) -/
def pongStep (now : Nat) (s : Stamps) : Stamps := if s.lastPong < s.lastPing then { s with lastPong := now } else s

/-- the ping thread preempted between its test and its assignment; the loop thread's whole pong step runs in between -/
def pingTorn (now other : Nat) (s : Stamps) : Stamps :=
  let t := decide (s.lastPong ≥ s.lastPing)
  let s' := pongStep other s
  if t then { s' with lastPing := now } else s'

/-- the loop thread preempted between its test and its assignment; the ping thread's whole step runs in between -/
def pongTorn (now other : Nat) (s : Stamps) : Stamps :=
  let t := decide (s.lastPong < s.lastPing)
  let s' := pingStep other s
  if t then { s' with lastPong := now } else s'

/-- **C16_stamps_linearizable** — the two guarded stamps (F12's repair) are written under complementary conditions, so
    tearing either thread's test-then-assign around the other thread's step changes nothing: the result is the result of
    one of the two atomic orders.  (This is why `run_check_race` finds nothing at the lines of the pong stamping, and why
    the atomic-step models are faithful there; the torn READS of `check()` were another matter: F19.) -/
theorem C16_stamps_linearizable (now other : Nat) (s : Stamps) :
    (pingTorn now other s = pongStep other (pingStep now s) ∨ pingTorn now other s = pingStep now (pongStep other s)) ∧
    (pongTorn now other s = pingStep other (pongStep now s) ∨ pongTorn now other s = pongStep now (pingStep other s)) := by
  constructor
  · by_cases h : s.lastPong ≥ s.lastPing
    · right
      have h' : ¬ s.lastPong < s.lastPing := by omega
      simp [pingTorn, pongStep, pingStep, h, h']
    · left
      simp [pingTorn, pongStep, pingStep, h]
  · by_cases h : s.lastPong < s.lastPing
    · right
      have h' : ¬ s.lastPong ≥ s.lastPing := by omega
      simp [pongTorn, pongStep, pingStep, h, h']
    · left
      simp [pongTorn, pongStep, pingStep, h]

/-- the step functions are the ones of the source (generated facts) -/
theorem stamp_steps_in_source : Gen.appPingStampWhenAnswered = true ∧ Gen.appPongStampWhenOutstanding = true := by decide

end WS.Props.C16c
