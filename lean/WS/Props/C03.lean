/-
  WS.Props.C03 — delivery is independent of transport segmentation and survives receive timeouts.
-/
import WS.Model.Conn
namespace WS.Props.C03
open WS WS.Model

/-- a read on a released connection (`self.sock is None`) raises CLOSED and touches nothing. -/
theorem sockRecv_released (c : Conn) (n : Nat) (h : c.hasSock = false) : c.sockRecv n = (.error .closed, c) := by
  simp [Conn.sockRecv, h]

end WS.Props.C03
