/-
  WS.Props.C03 — delivery is independent of transport segmentation and survives receive timeouts.
-/
import WS.Lemmas.Stream
import WS.Lemmas.Timeouts
import WS.Lemmas.Resume
namespace WS.Props.C03
open WS WS.Model WS.Spec WS.Lemmas.RecvStrict WS.Lemmas.Parser WS.Lemmas.Stream WS.Lemmas.Timeouts WS.Lemmas.Staged WS.Lemmas.Resume

/-- a read on a released connection (`self.sock is None`) raises CLOSED and touches nothing. -/
theorem sockRecv_released (c : Conn) (n : Nat) (h : c.hasSock = false) : c.sockRecv n = (.error .closed, c) := by
  simp [Conn.sockRecv, h]

/-- **C03_recv_strict** — `recv_strict(n)` over ANY chunking: when at least `n` bytes are pending it returns
    exactly the next `n` pending bytes and removes exactly those — no byte lost, duplicated or reordered,
    whatever the chunk boundaries (down to single bytes). -/
theorem C03_recv_strict (c : Conn) (n : Nat) (hl : Live c) (hch : Chunks c.sock.inp) (hav : n ≤ (pending c).length) :
    ∃ c', c.recvStrict n = (.ok ((pending c).take n), c') ∧ pending c' = (pending c).drop n :=
  let ⟨c', h, hp, _⟩ := recvStrict_avail c n hl hch hav
  ⟨c', h, hp⟩

/-- **C03_segmentation** — what successive `recv_frame` calls report is a function of the bytes the server
    sent, not of how the transport delivers them: two connections (same validation setting) whose pending
    bytes are EQUAL — however differently they are split between the parser's buffer and any number of
    transport chunks — report identical outcomes for every complete frame in the stream, and are left with
    identical pending bytes. -/
theorem C03_segmentation (ws : List WireFrame) (c₁ c₂ : Conn) (tail : Bytes)
    (hl₁ : Live c₁) (hch₁ : Chunks c₁.sock.inp) (hclr₁ : Cleared c₁)
    (hl₂ : Live c₂) (hch₂ : Chunks c₂.sock.inp) (hclr₂ : Cleared c₂)
    (hbytes : pending c₁ = pending c₂) (hskip : c₁.skipUtf8 = c₂.skipUtf8)
    (hd : DecodesTo (pending c₁) ws tail) :
    (recvFrames ws.length c₁).1 = (recvFrames ws.length c₂).1 ∧
    pending (recvFrames ws.length c₁).2 = pending (recvFrames ws.length c₂).2 := by
  obtain ⟨a, ha, pa, _, _⟩ := recvFrames_decodes ws c₁ tail hl₁ hch₁ hclr₁ hd
  obtain ⟨b, hb, pb, _, _⟩ := recvFrames_decodes ws c₂ tail hl₂ hch₂ hclr₂ (hbytes ▸ hd)
  rw [ha, hb, hskip]
  exact ⟨rfl, pa.trans pb.symm⟩

/-- **C03_timeout_recv_strict** — over ANY schedule of byte chunks and receive timeouts, a `recv_strict(n)` call
    that raises TIMEOUT has consumed exactly one timeout event and left every pending byte (buffered or still in
    the transport) and the parser's stage fields exactly as they were — so the retried call resumes without losing,
    duplicating or reordering a byte; a call that completes saw no timeout and kept all pending bytes in order. -/
theorem C03_timeout_recv_strict (c : Conn) (n : Nat) (hl : Live c) (hp : Plain c.sock.inp) :
    StrictOut c n (Conn.recvStrictLoop (c.sock.size + 1) c n) := by
  apply recvStrictLoop_plain _ c n hl hp
  have := bytesOf_le_size c.sock.inp
  unfold Sock.size; omega

/-- **C03_timeouts** — a receive timeout at ANY byte position (inside the header, the extended length, the mask
    key or the payload), any number of times, over any chunking: after `k` calls that each raised TIMEOUT the
    connection is still usable, the parser state is consistent, and the byte stream from the start of the frame in
    progress is exactly what it was — nothing lost, duplicated or reordered. -/
theorem C03_timeouts (c ck : Conn) (k : Nat) (hl : Live c) (hp : Plain c.sock.inp) (hws : WellStaged c)
    (ht : TimedOut c k ck) :
    vpending ck = vpending c ∧ WellStaged ck ∧ Live ck ∧ Plain ck.sock.inp :=
  timedOut_preserves ht hl hp hws

/-- **C03_resume** — … and when the bytes have finally arrived, the retried call returns exactly the frame the
    RFC decoder reads from the ORIGINAL stream (what the one-chunk, no-timeout run returns by `C02_decode`) and
    leaves exactly the bytes that follow it. Together with `C03_segmentation`: observations are a function of
    the bytes sent, whatever the segmentation and wherever the timeouts fall. -/
theorem C03_resume (c ck : Conn) (k : Nat) (hl : Live c) (hp : Plain c.sock.inp) (hclr : Cleared c)
    (ht : TimedOut c k ck) (hch : Chunks ck.sock.inp)
    (w : WireFrame) (rest : Bytes) (hdec : decode (pending c) = .frame w rest) :
    ∃ c', ck.recvFrame = (outcome ck.skipUtf8 w, c') ∧ pending c' = rest ∧ Cleared c' := by
  have hws : WellStaged c := by
    obtain ⟨a, b, cc⟩ := hclr
    simp [WellStaged, a, b, cc]
  obtain ⟨hv, hwsk, hlk, _⟩ := timedOut_preserves ht hl hp hws
  have hvc : vpending c = pending c := by
    obtain ⟨a, _, _⟩ := hclr
    simp [vpending, stageBytes, a]
  rw [← hvc, ← hv] at hdec
  exact recvFrame_resume ck hlk hch hwsk w rest hdec

end WS.Props.C03
