/-
  WS.Props.C06 — property theorems for C06 (text is delivered only if the whole payload is
  well-formed UTF-8).  Helper lemmas live in WS.Lemmas.Utf8.
-/
import WS.Lemmas.Utf8
namespace WS.Props.C06
open WS WS.Spec WS.Model WS.Lemmas.Utf8

/-- the code's `_validate_utf8` ends with `return state == _UTF8_ACCEPT`
    (generated fact; false of a tree that ends with `return True`). -/
theorem final_state_checked : Gen.utf8FinalCheck = true := by decide

/-- **C06_validate** — for *every* byte string, the validator built on the generated table
    answers exactly Table 3-7 of the Unicode Standard: no overlong forms, no surrogates,
    nothing above U+10FFFF, no sequence cut short at the end. -/
theorem C06_validate (bs : Bytes) : validateUtf8 bs = wellFormed bs := by
  have hmem : ((0, 0, 0) : St) ∈ allStates := by decide
  have h := loop_eq_run bs (0, 0, 0) hmem
  have hc : code (0, 0, 0) = Gen.utf8Accept := by decide
  rw [hc] at h
  have hacc := run_accepts_iff bs (0, 0, 0)
  simp only [wfFrom] at hacc
  unfold validateUtf8
  rw [h, final_state_checked, ← hacc]
  cases hr : run (0, 0, 0) bs with
  | none => simp [accepting]
  | some st =>
    have hst : st ∈ allStates := run_mem bs (0, 0, 0) hmem st hr
    have hz := code_zero_iff st hst
    obtain ⟨n, lo, hi⟩ := st
    cases n with
    | zero => simp [accepting, table_consts.1, code]
    | succ k =>
      have : code (k + 1, lo, hi) ≠ 0 := by intro h0; have := hz.mp h0; simp at this
      simp [accepting, table_consts.1, this]

/-- non-vacuity / sanity: concrete members of each class. -/
example : validateUtf8 [0xC3, 0xA9] = true ∧ validateUtf8 [0xC3] = false ∧
    validateUtf8 [0xED, 0xA0, 0x80] = false ∧ validateUtf8 [0xC0, 0x80] = false ∧
    validateUtf8 [0xF4, 0x90, 0x80, 0x80] = false ∧ validateUtf8 [0xF0, 0x9F, 0x98, 0x80] = true := by
  decide

/-- generated fact: iteration is receiving — `__iter__` is exactly `while True: yield self.recv()`, `__next__` is
    `return self.recv()`, `next` is `return self.__next__()`; the model's one receive operation stands for all of them (the
    correspondence runs every other session through these spellings). -/
theorem iteration_is_recv : Gen.iterationIsRecv = true := by decide

end WS.Props.C06
