/-
  WS.Props.C03b — C03, the message level: results AND automatic replies are invariant under segmentation.
-/
import WS.Props.C04b
namespace WS.Props.C03b
open WS WS.Model WS.Spec WS.Lemmas.RecvStrict WS.Lemmas.Parser WS.Lemmas.Stream WS.Lemmas.ShortWrites WS.Lemmas.Loop

/-- **C03_message_segmentation** — what a `recv_data_frame()` call returns AND what it writes on its own
    (the pongs) is a function of the bytes the server sent: two connections whose pending bytes are EQUAL —
    however differently split between the parser's buffer and any number of transport chunks, down to single
    bytes — with the same reassembly state, the same validation setting and the same mask-key source return
    the identical value (message or payload error), append the identical reply bytes to the wire, and are left
    with identical pending bytes and an idle reassembly state. Any message: any fragmentation, any number of
    interleaved pings and pongs. -/
theorem C03_message_segmentation (fs : List Frame) (st : Option Nat) (hm : MsgFrames st fs) (acc : Bytes)
    (c₁ c₂ : Conn) (ws : List WireFrame) (tail : Bytes)
    (hr₁ : Ready c₁) (hr₂ : Ready c₂) (hi₁ : LoopInv c₁ st acc) (hi₂ : LoopInv c₂ st acc)
    (hbytes : pending c₁ = pending c₂) (hskip : c₁.skipUtf8 = c₂.skipUtf8) (hkeys : c₁.keys = c₂.keys)
    (hmap : ws.map frameOfWire = fs) (hval : ∀ w ∈ ws, validate (frameOfWire w) c₁.skipUtf8 = none)
    (hd : DecodesTo (pending c₁) ws tail) :
    ∃ replies c₁' c₂',
      c₁.recvDataFrame false = ((c₂.recvDataFrame false).1, c₁') ∧ (c₂.recvDataFrame false).2 = c₂' ∧
      c₁'.sock.wire = c₁.sock.wire ++ replies ∧ c₂'.sock.wire = c₂.sock.wire ++ replies ∧
      pending c₁' = tail ∧ pending c₂' = tail ∧ LoopInv c₁' none [] ∧ LoopInv c₂' none [] := by
  have hfu₁ : fs.length ≤ c₁.sock.size + c₁.buf.length + 2 := by
    rw [← hmap, List.length_map]; exact WS.Props.C04.fuel_enough c₁ ws tail hd
  have hfu₂ : fs.length ≤ c₂.sock.size + c₂.buf.length + 2 := by
    rw [← hmap, List.length_map]; exact WS.Props.C04.fuel_enough c₂ ws tail (hbytes ▸ hd)
  obtain ⟨a, ea, _, pa, ia, wa, _⟩ := loop_message fs st hm c₁ acc ws tail _ hr₁ hi₁ hmap hval hd hfu₁
  obtain ⟨b, eb, _, pb, ib, wb, _⟩ := loop_message fs st hm c₂ acc ws tail _ hr₂ hi₂ hmap
    (by intro w hw; rw [← hskip]; exact hval w hw) (hbytes ▸ hd) hfu₂
  refine ⟨pongsWire c₁.keys fs, a, b, ?_, ?_, wa, by rw [hkeys]; exact wb, pa, pb, ia, ib⟩
  · simp only [Conn.recvDataFrame, ea, eb, hskip]
  · simp only [Conn.recvDataFrame, eb]

end WS.Props.C03b
