/-
  WS.Props.C01c — C01, str payloads: "text as its UTF-8 bytes".
-/
import WS.Props.C01b
import WS.Lemmas.Scalars
namespace WS.Props.C01c
open WS WS.Spec WS.Model WS.Lemmas.Frame WS.Lemmas.ShortWrites WS.Lemmas.Loop WS.Lemmas.Scalars

theorem encodeStr_ok (cps : List Nat) (h : ∀ c ∈ cps, IsScalar c) : encodeStr cps = .ok (cps.flatMap encodeScalar) := by
  unfold encodeStr
  have : cps.all (fun c => decide (IsScalar c)) = true := by
    rw [List.all_eq_true]; intro c hc; simpa using h c hc
  simp [this]

/-- a str holding a lone surrogate (or a value that is no code point) is refused before anything is drawn or written. -/
theorem C01_text_unencodable (c : Conn) (cps : List Nat) (h : ∃ x ∈ cps, ¬ IsScalar x) :
    c.sendText cps = (.error (.internal "UnicodeEncodeError"), c) ∧
    c.pingText cps = (.error (.internal "UnicodeEncodeError"), c) ∧
    c.pongText cps = (.error (.internal "UnicodeEncodeError"), c) := by
  have : encodeStr cps = .error (.internal "UnicodeEncodeError") := by
    unfold encodeStr
    obtain ⟨x, hx, hn⟩ := h
    have : cps.all (fun c => decide (IsScalar c)) = false := by
      rw [List.all_eq_false]; exact ⟨x, hx, by simpa using hn⟩
    simp [this]
  simp [Conn.sendText, Conn.pingText, Conn.pongText, this]

/-- **C01_text** — `send(text)`, `ping(text)`, `pong(text)` with a str payload (any sequence of Unicode scalar values
    whose encoding is shorter than 2^63 bytes), on a writable connection, whatever the short-write pattern: ONE key is
    drawn; the bytes added to the wire are one frame that the RFC decoder reads as FIN=1, reserved bits clear, the
    opcode of the call (TEXT / PING / PONG), MASK set, the drawn key, the minimal length form, and a payload that is
    EXACTLY the UTF-8 encoding of the text (Unicode Table 3-6, scalar by scalar) — which is well-formed UTF-8
    (Table 3-7), so an independent decoder recovers the caller's text; `send` returns the number of bytes written. -/
theorem C01_text (c : Conn) (cps : List Nat) (k : Bytes) (ks : List Bytes)
    (hs : ∀ x ∈ cps, IsScalar x) (hw : Writable c) (hlen : (cps.flatMap encodeScalar).length < 2 ^ 63)
    (hkeys : c.keys = k :: ks) (hk : k.length = 4) :
    let p := cps.flatMap encodeScalar
    wellFormed p = true ∧
    (∀ (call : Conn → List Nat → Except Exn Nat × Conn) (op : Nat),
      (call = Conn.sendText ∧ op = 1) ∨ (call = Conn.pingText ∧ op = 9) ∨ (call = Conn.pongText ∧ op = 10) →
      ∃ w c', call c cps = (.ok w.length, c') ∧ c'.sock.wire = c.sock.wire ++ w ∧
        decode w = .frame { fin := 1, rsv1 := 0, rsv2 := 0, rsv3 := 0, opcode := op, masked := true, key := k,
                            lenForm := minimalForm p.length, payload := p } [] ∧
        c'.keyDraws = c.keyDraws + 1) := by
  intro p
  refine ⟨wellFormed_flatMap_encode cps hs, ?_⟩
  intro call op hcall
  have henc := encodeStr_ok cps hs
  have k1 : Gen.opcodeText = 1 ∧ Gen.opcodePing = 9 ∧ Gen.opcodePong = 10 := by decide
  obtain ⟨t1, t9, t10⟩ := k1
  rcases hcall with ⟨hc, ho⟩ | ⟨hc, ho⟩ | ⟨hc, ho⟩
  · subst hc; subst ho
    obtain ⟨w, c', h1, h2, h3, h4, _⟩ := WS.Props.C01b.C01_send c p 1 k ks hw (by decide) hlen hkeys hk
    exact ⟨w, c', by simp [Conn.sendText, henc, t1]; exact h1, h2, h3, h4⟩
  · subst hc; subst ho
    obtain ⟨w, c', h1, h2, h3, h4, _⟩ := WS.Props.C01b.C01_send c p 9 k ks hw (by decide) hlen hkeys hk
    exact ⟨w, c', by simp [Conn.pingText, Conn.ping, henc, t9]; exact h1, h2, h3, h4⟩
  · subst hc; subst ho
    obtain ⟨w, c', h1, h2, h3, h4, _⟩ := WS.Props.C01b.C01_send c p 10 k ks hw (by decide) hlen hkeys hk
    exact ⟨w, c', by simp [Conn.pongText, Conn.pong, henc, t10]; exact h1, h2, h3, h4⟩

/-- non-vacuity: "é€" = U+00E9 U+20AC encodes to C3 A9 E2 82 AC. -/
example : (match encodeStr [0xE9, 0x20AC] with | .ok p => p | .error _ => []) = [0xC3, 0xA9, 0xE2, 0x82, 0xAC] := by decide

end WS.Props.C01c
