/-
  WS.Props.C10 — the opening handshake request is well-formed and reflects URL and options.
  Helper lemmas live in WS.Lemmas.HttpRequest / WS.Lemmas.Base64.

  Model: WS.Model.Handshake (`_get_handshake_headers`, `_create_sec_websocket_key`, `handshake`).
  Spec:  WS.Spec.HttpRequest (`parseRequest` — RFC 7230 grammar, nothing after the empty line;
         `expected` — the request the URL and the options call for, from the property text).
-/
import WS.Lemmas.HttpRequest
namespace WS.Props.C10
open WS WS.PyH2 WS.H2 WS.Spec.Http WS.Model.Http WS.Model.Handshake WS.Lemmas.HttpRequest

/-- generated facts the theorems rest on (false of the pinned commit / of a changed constant):
    the `connection` option is sent as `Connection: <value>` (F15), the version is 13, the key is
    made of 16 random bytes. -/
theorem generated_facts :
    Gen.h2ConnectionNamed = true ∧ Gen.wsVersion = 13 ∧ Gen.keyRandomBytes = 16 := by decide

/-- **C10_request** — for every URL (`scheme:rest` with scheme ws / wss, parts `u`), every option
    combination, every random draw and jar content without CR/LF in their components (custom
    header entries being header lines / token names, not overriding the generated key or version):
    the model of `_get_handshake_headers` succeeds with the key `base64(rand)`, and the text
    `"\r\n".join(headers)` it sends is a syntactically valid HTTP/1.1 GET request, ended by one
    empty line with nothing after it, whose target and header fields are exactly the expected ones
    (target = path and query; Host with the 80/443 rule and IPv6 brackets; Upgrade; Connection;
    Sec-WebSocket-Version 13; Sec-WebSocket-Key; Origin / Host override / subprotocols / custom
    headers with `None` skipped / cookies as the options say). -/
theorem C10_request (u : UrlParts) (rest : Str) (o : Opts) (rand : Bytes) (jar : Str)
    (c : Clean u o jar) :
    ∃ lines,
      getHandshakeHeaders u.resource ((if u.secure then "wss" else "ws").toList ++ ':' :: rest)
          u.host u.port o rand jar = .ok (lines, Base64.encode rand)
      ∧ parseRequest (requestText lines) = some (expected u o rand jar) := by
  refine ⟨_, by rw [← createKey_eq]; exact model_lines u rest o rand jar c, ?_⟩
  have hseg := headerLines_ok u o rand jar c
  generalize headerLines (if u.secure then "wss" else "ws").toList u o rand jar = hl at hseg
  have hrl : '\r' ∉ "GET ".toList ++ u.resource ++ " HTTP/1.1".toList := by
    intro hm
    simp only [List.mem_append] at hm
    rcases hm with (hm | hm) | hm
    · revert hm; decide
    · exact (target_chars c.resource).2 hm
    · revert hm; decide
  have hsplit : splitCRLF (requestText (("GET ".toList ++ u.resource ++ " HTTP/1.1".toList) :: (hl ++ [[], []])))
      = ("GET ".toList ++ u.resource ++ " HTTP/1.1".toList) :: (hl ++ [[], []]) := by
    unfold requestText
    apply splitCRLF_join
    · intro l hl'
      simp only [List.mem_cons, List.mem_append, List.mem_nil_iff, or_false] at hl'
      rcases hl' with rfl | h | rfl | rfl
      · exact hrl
      · exact hseg.2 l h
      · simp
      · simp
    · simp
  unfold parseRequest
  rw [hsplit]
  have hrev : (hl ++ [[], []]).reverse = [] :: [] :: hl.reverse := by simp
  simp only [hrev, List.reverse_reverse, parseRequestLine_render u.resource c.resource, hseg.1, expected]

/-- the hypotheses of `C10_request` are satisfiable, with every option in play. -/
example : Clean ⟨"2001:db8::1".toList, 8080, "/a/b?x=1".toList, true⟩
    { host := some "h.example".toList, origin := some "https://o.example".toList,
      header := .dict [("X-A".toList, some "1".toList), ("X-N".toList, none)],
      connection := some "keep-alive, Upgrade".toList, subprotocols := ["chat".toList, "superchat".toList],
      cookie := some "a=1".toList } "sid=1".toList :=
  { resource := by decide, host := by decide
    optHost := by intro h e; cases e; decide
    origin := by intro h e; cases e; decide
    connection := by intro h e; cases e; decide
    subs := by decide
    cookie := by intro h e; cases e; decide
    jar := by decide
    header := by
      intro kv hkv
      simp only [List.mem_cons, List.mem_nil_iff, or_false] at hkv
      rcases hkv with rfl | rfl
      · refine ⟨by decide, ?_, by decide, by decide⟩
        intro v e; cases e; decide
      · refine ⟨by decide, ?_, by decide, by decide⟩
        intro v e; cases e }

/-- **C10_key** — the key sent is the base64 text of the random draw: it decodes back to exactly
    those bytes (base64 round trip, proved for all lengths) and, for a 16-byte draw, is 24
    characters long. -/
theorem C10_key (rand : Bytes) :
    Base64.decode (createKey rand) = some rand ∧
    (rand.length = Gen.keyRandomBytes → (createKey rand).length = 24 ∧ keyOk (createKey rand) rand 16 = true) := by
  rw [createKey_eq]
  refine ⟨Lemmas.Base64.decode_encode rand, ?_⟩
  intro h
  have h16 : rand.length = 16 := by rw [h]; decide
  refine ⟨by rw [Lemmas.Base64.encode_length, h16], ?_⟩
  simp [keyOk, h16, Lemmas.Base64.decode_encode]

/-- two different draws give two different keys (freshness carries over from `os.urandom`). -/
theorem C10_key_injective (r1 r2 : Bytes) (h : createKey r1 = createKey r2) : r1 = r2 := by
  have h1 := (C10_key r1).1
  have h2 := (C10_key r2).1
  rw [h, h2] at h1
  exact (Option.some.inj h1).symm

/-- **C10_one_write** — `handshake` hands the transport the request in exactly one write, and
    that write precedes every read: the I/O of a handshake is either nothing (the headers could
    not be built), or one write followed by reads only; the bytes written are the UTF-8 encoding
    of `"\r\n".join(headers)`. -/
theorem C10_one_write (acceptOf : Str → Str) (s : Sock) (url : Str) (u : UrlParts) (o : Opts)
    (rand : Bytes) (jar : Str) (r : Except HExn HsResp) (s' : Sock) (io : List IoEv)
    (hrun : handshake acceptOf s url u o rand jar = (r, s', io)) :
    io = [] ∨
    ∃ lines key reads,
      getHandshakeHeaders u.resource url u.host u.port o rand jar = .ok (lines, key) ∧
      io = .write (encodeUtf8 (requestText lines)) :: reads ∧ ∀ e ∈ reads, ∃ n, e = IoEv.recv n := by
  unfold handshake at hrun
  cases hg : getHandshakeHeaders u.resource url u.host u.port o rand jar with
  | error e =>
    rw [hg] at hrun
    left
    exact (Prod.mk.inj (Prod.mk.inj hrun).2).2.symm
  | ok lk =>
    obtain ⟨lines, key⟩ := lk
    rw [hg] at hrun
    right
    refine ⟨lines, key, ?_⟩
    simp only at hrun
    cases hsend : send s (encodeUtf8 (requestText lines)) with
    | mk r1 s1 =>
      rw [hsend] at hrun
      cases r1 with
      | error e =>
        simp only at hrun
        exact ⟨[], rfl, (Prod.mk.inj (Prod.mk.inj hrun).2).2.symm, by simp⟩
      | ok _ =>
        simp only at hrun
        have hreads : ∀ e ∈ (getRespHeaders s1).2.2, ∃ n, e = IoEv.recv n := by
          unfold getRespHeaders
          cases hr : readHeaders s1 with
          | mk r2 rest2 =>
            obtain ⟨s2, k⟩ := rest2
            have hrep : ∀ e ∈ List.replicate k (IoEv.recv Gen.h2HeadRecvSize), ∃ n, e = IoEv.recv n := by
              intro e he; exact ⟨_, (List.mem_replicate.mp he).2⟩
            cases r2 with
            | error e => exact hrep
            | ok h =>
              simp only
              have hshape : ∀ reads, (getRespHeaders.badStatus h s2 reads).2.2 = reads ∨
                  ∃ n, (getRespHeaders.badStatus h s2 reads).2.2 = reads ++ [IoEv.recv n] := by
                intro reads
                unfold getRespHeaders.badStatus
                repeat' split
                all_goals try dsimp only
                all_goals try split
                all_goals first | (left; rfl) | (right; exact ⟨_, rfl⟩)
              have hbad : ∀ e ∈ (getRespHeaders.badStatus h s2 (List.replicate k (IoEv.recv Gen.h2HeadRecvSize))).2.2,
                  ∃ n, e = IoEv.recv n := by
                intro e he
                rcases hshape (List.replicate k (IoEv.recv Gen.h2HeadRecvSize)) with h1 | ⟨n, h1⟩
                · rw [h1] at he; exact hrep e he
                · rw [h1] at he
                  rcases List.mem_append.mp he with he | he
                  · exact hrep e he
                  · exact ⟨n, by simpa using he⟩
              cases h.status with
              | none => exact hbad
              | some st =>
                simp only
                split
                · exact hrep
                · exact hbad
        cases hresp : getRespHeaders s1 with
        | mk r3 rest3 =>
          obtain ⟨s3, io3⟩ := rest3
          rw [hresp] at hreads hrun
          cases r3 with
          | error e =>
            simp only at hrun
            exact ⟨io3, rfl, (Prod.mk.inj (Prod.mk.inj hrun).2).2.symm, hreads⟩
          | ok sh =>
            obtain ⟨status, hdrs⟩ := sh
            simp only at hrun
            split at hrun
            · exact ⟨io3, rfl, (Prod.mk.inj (Prod.mk.inj hrun).2).2.symm, hreads⟩
            · split at hrun <;> exact ⟨io3, rfl, (Prod.mk.inj (Prod.mk.inj hrun).2).2.symm, hreads⟩

end WS.Props.C10
