/-
  WS.Props.C14c — the one-connection theorems with the ping thread running (any interval ≥ 0, no ping
  timeout, every schedule of the ping thread): corollaries of `C13b.C13_keepalive_transparent`.
-/
import WS.Props.C13b
import WS.Props.C14
import WS.Lemmas.AppReconn
namespace WS.Props.C14c
open WS WS.Model.App WS.Lemmas.App WS.Lemmas.App.KA WS.Spec.AppTrace

theorem netOnly_strip (tr : Trace) : netOnly (strip tr) = netOnly tr := by
  simp only [netOnly, strip, List.filter_filter]
  congr 1
  funext te
  cases h : te.2 <;> simp [isKA]

theorem acc_off (c : Cfg) (hto : c.to = none) : argsAccepted (off c).iv (off c).to = true := by
  have h0 : (off c).iv = 0 := rfl
  have h1 : (off c).to = none := hto
  rw [h0, h1]; decide

/-- **C14_terminates_keepalive** — `C14_terminates` with keepalive on (no ping timeout): one connection carrying any legal
    traffic and ended by the server's close frame, end of stream, a reset or a protocol / payload error, every schedule of the
    ping thread: run_forever returns — True after an error, False after the server's close frame. -/
theorem C14_terminates_keepalive (c : Cfg) (hq : Quiet c) (hto : c.to = none) (hiv : 0 ≤ c.iv)
    (hrc : c.reconnect = 0) (s0 : St) (legal : List TEv) (te : TEv)
    (hs : s0.sock = none)
    (hd : s0.dials = [.established (legal ++ [te])])
    (hleg : ∀ e ∈ legal, isLegal e.ev = true) (hterm : endsBy te)
    (hfuel : need0 (selectTimeout c) (legal ++ [te]) + 1 ≤ c.fuel)
    (hz : endTime s0.now (legal ++ [te]) + secs Gen.closeTimeoutDefault ≤ c.horizon) :
    (runForeverO c s0).2 = .returned (match te.ev with | .close _ => false | _ => true) := by
  obtain ⟨_, ho, _⟩ := C13b.C13_keepalive_transparent c hto hiv s0
  rw [ho]
  exact C14.C14_terminates (off c) hq (acc_off c hto) rfl hrc (P s0) legal te hs rfl rfl hd hleg hterm hfuel hz

/-- **C14_close_args_keepalive** — `C14_close_args` with keepalive on: the run, without the ping thread's own events, ends
    with the close reply, the release of the transport, on_close(code, reason) and the return of False, all at the tick the
    server's close frame arrived. -/
theorem C14_close_args_keepalive (c : Cfg) (hq : Quiet c) (hto : c.to = none) (hiv : 0 ≤ c.iv)
    (hrc : c.reconnect = 0) (s0 : St) (legal : List TEv) (te : TEv) (body : Bytes)
    (hs : s0.sock = none)
    (hd : s0.dials = [.established (legal ++ [te])])
    (hleg : ∀ e ∈ legal, isLegal e.ev = true) (hk : te.ev = .close body) (hoc : c.has .onClose = true)
    (hfuel : need0 (selectTimeout c) (legal ++ [te]) + 1 ≤ c.fuel)
    (hz : endTime s0.now (legal ++ [te]) ≤ c.horizon) :
    ∃ pre t, strip (runForever c s0).trace = pre ++
        [(t, .wrote Gen.opcodeClose (beN 2 Gen.statusNormal)), (t, .sockDropped s0.nextIdx),
         (t, .cb .onClose (Spec.AppTrace.closeArgsOf body)), (t, .returned false)] ∧
      t = endTime s0.now (legal ++ [te]) := by
  obtain ⟨htr, _, _⟩ := C13b.C13_keepalive_transparent c hto hiv s0
  rw [htr]
  exact C14.C14_close_args (off c) hq (acc_off c hto) rfl hrc (P s0) legal te body hs rfl rfl hd hleg hk hoc hfuel hz

/-- **C14_close_args_eof_keepalive** — `C14_close_args_eof` with keepalive on: a connection lost by end of stream — the
    transport is closed, the loss reported once to on_error, on_close(None, None) called, True returned, all at the same
    tick, whatever the ping thread did in between. -/
theorem C14_close_args_eof_keepalive (c : Cfg) (hq : Quiet c) (hto : c.to = none) (hiv : 0 ≤ c.iv)
    (hrc : c.reconnect = 0) (s0 : St) (legal : List TEv) (te : TEv)
    (hs : s0.sock = none)
    (hd : s0.dials = [.established (legal ++ [te])])
    (hleg : ∀ e ∈ legal, isLegal e.ev = true) (hk : te.ev = .eof) (hoc : c.has .onClose = true)
    (hoe : c.has .onError = true)
    (hfuel : need0 (selectTimeout c) (legal ++ [te]) + 1 ≤ c.fuel)
    (hz : endTime s0.now (legal ++ [te]) ≤ c.horizon) :
    ∃ pre t, strip (runForever c s0).trace = pre ++
        [(t, .sockClosed s0.nextIdx), (t, .cb .onError [.exn .closed]), (t, .cb .onClose [.none, .none]),
         (t, .returned true)] := by
  obtain ⟨htr, _, _⟩ := C13b.C13_keepalive_transparent c hto hiv s0
  rw [htr]
  exact C14.C14_close_args_eof (off c) hq (acc_off c hto) rfl hrc (P s0) legal te hs rfl rfl hd hleg hk hoc hoe hfuel hz

end WS.Props.C14c
