/-
  WS.Props.C11 — TLS peers are authenticated by default; only explicit options relax it.
  What Lean decides is the *decision logic* of `_ssl_socket` / `_wrap_sni_socket` and the ordering
  dial → [CONNECT] → wrap → request; that CPython/OpenSSL enforce `verify_mode` and
  `check_hostname` is trusted (exercised by the loopback-TLS support run of the thorough tier).

  Model: WS.Model.Tls, WS.Model.Connect.   Spec: WS.Spec.TlsPolicy (from the documentation).
-/
import WS.Spec.TlsPolicy
import WS.Model.Tls
import WS.Model.Connect
namespace WS.Props.C11
open WS WS.PyH2 WS.H2 WS.Model.Http WS.Model.Tls

/-- generated facts (T): the defaults and the shape of the selection in `_wrap_sni_socket` /
    `_ssl_socket` / `_http.connect` as read from the source on this run. A flipped default
    (certificate required, host name checked), a changed comparison or a wrap that is not
    conditioned on `is_secure` makes this theorem — and everything below — fail to compile. -/
theorem generated_facts :
    Gen.sslDefaultCertReqs = "ssl.CERT_REQUIRED" ∧ Gen.sslDefaultCheckHostname = true ∧
    Gen.h2WrapLoadCertDefault = "ssl.CERT_NONE" ∧ Gen.h2WrapCondCertDefault = "ssl.CERT_NONE" ∧
    Gen.h2WrapCondCheckDefault = false ∧ Gen.h2WrapBodyCheck = false ∧
    Gen.h2WrapBodyVerify = "ssl.CERT_NONE" ∧ Gen.h2WrapElseCheckDefault = true ∧
    Gen.h2WrapElseCertDefault = "ssl.CERT_REQUIRED" ∧ Gen.h2WrapSniIsHostname = true ∧
    Gen.h2WrapIffSecure = true := by decide

private theorem wrapSni_eq (v : CertReqs) (ch : Option Bool) (caf cap : Option Str) (nm : Str) :
    wrapSni ⟨some v, ch, caf, cap, none⟩ nm =
      match v with
      | .none => if ch = some true then .error .valueError else .ok (.fresh .none false .unset nm)
      | v => .ok (.fresh v (ch.getD true)
                (if (truthy caf).isSome ∨ (truthy cap).isSome then .locations caf cap else .default) nm) := by
  have e2 : certOf Gen.h2WrapLoadCertDefault = .none := by decide
  have e3 : certOf Gen.h2WrapCondCertDefault = .none := by decide
  have e4 : certOf Gen.h2WrapBodyVerify = .none := by decide
  have e5 : certOf Gen.h2WrapElseCertDefault = .required := by decide
  have e6 : Gen.h2WrapCondCheckDefault = false := by decide
  have e7 : Gen.h2WrapBodyCheck = false := by decide
  have e8 : Gen.h2WrapElseCheckDefault = true := by decide
  unfold wrapSni
  simp only [e2, e3, e4, e5, e6, e7, e8, Option.getD_some]
  by_cases hca : (truthy caf).isSome = true ∨ (truthy cap).isSome = true
  · rcases ch with _ | c
    · cases v <;> simp [hca, setCheck, setVerify, PyCtx.fresh]
    · cases c <;> cases v <;> simp [hca, setCheck, setVerify, PyCtx.fresh]
  · rcases ch with _ | c
    · cases v <;> simp [hca, setCheck, setVerify, PyCtx.fresh]
    · cases c <;> cases v <;> simp [hca, setCheck, setVerify, PyCtx.fresh]

private theorem isSome_false_eq_none {α : Type} (o : Option α) (h : o.isSome = false) : o = none := by
  cases o <;> simp_all

private theorem cafile_eq (cr : Option CertReqs) (ch : Option Bool) (b caf cap sh : Option Str)
    (cx : Option Nat) (f d : Bool) :
    (if ((truthy b).isSome && f && caf.isNone) = true then truthy b else caf)
      = Spec.Tls.caFile ⟨cr, ch, caf, cap, sh, cx⟩ ⟨b, f, d⟩ := by
  have hg : Spec.Tls.given b = truthy b := rfl
  unfold Spec.Tls.caFile
  cases caf with
  | some x => simp
  | none =>
    rw [hg]
    cases f with
    | false => simp
    | true =>
      cases hb : (truthy b).isSome with
      | true => simp
      | false => simp [isSome_false_eq_none _ hb]

private theorem capath_eq (cr : Option CertReqs) (ch : Option Bool) (b caf cap sh : Option Str)
    (cx : Option Nat) (f d : Bool) (hfd : ¬ (f = true ∧ d = true)) :
    (if (!((truthy b).isSome && f && caf.isNone) && (truthy b).isSome && d && cap.isNone) = true
      then truthy b else cap)
      = Spec.Tls.caPath ⟨cr, ch, caf, cap, sh, cx⟩ ⟨b, f, d⟩ := by
  have hg : Spec.Tls.given b = truthy b := rfl
  unfold Spec.Tls.caPath
  cases cap with
  | some x => simp
  | none =>
    rw [hg]
    cases d with
    | false => simp
    | true =>
      have hf : f = false := by cases f <;> simp_all
      subst hf
      cases hb : (truthy b).isSome with
      | true => simp
      | false => simp [isSome_false_eq_none _ hb]

/-- **C11_policy** (Model ⊨ Spec, all option combinations): for every `sslopt`, every value of
    `WEBSOCKET_CLIENT_CA_BUNDLE` (file, directory, neither) and every URL host, the context
    `_ssl_socket` builds and the name it passes to `wrap_socket` are exactly the documented policy;
    the one refused combination (CERT_NONE together with check_hostname=True) raises before anything
    is wrapped or sent. (A path cannot be a file and a directory at once.) -/
theorem C11_policy (o : SslOpt) (env : TlsEnv) (host : Str)
    (hfd : ¬ (env.isFile = true ∧ env.isDir = true)) :
    sslSocket o env host =
      match Spec.Tls.tlsPolicy o env host with
      | some p => .ok p
      | none => .error .valueError := by
  obtain ⟨cr, ch, caf, cap, sh, cx⟩ := o
  obtain ⟨b, f, d⟩ := env
  have e1 : certOf Gen.sslDefaultCertReqs = .required := by decide
  have hname : effectiveName ⟨cr, ch, caf, cap, sh, cx⟩ host
      = Spec.Tls.peerName ⟨cr, ch, caf, cap, sh, cx⟩ host := by
    unfold effectiveName Spec.Tls.peerName
    rfl
  cases cx with
  | some c =>
    simp only [sslSocket, wrapSni, Spec.Tls.tlsPolicy]
    rw [hname]
  | none =>
    simp only [sslSocket, e1, Spec.Tls.tlsPolicy]
    rw [hname, wrapSni_eq, cafile_eq cr ch b caf cap sh none f d, capath_eq cr ch b caf cap sh none f d hfd]
    generalize Spec.Tls.peerName ⟨cr, ch, caf, cap, sh, none⟩ host = nm
    have hca : (if (truthy (Spec.Tls.caFile ⟨cr, ch, caf, cap, sh, none⟩ ⟨b, f, d⟩)).isSome = true
                  ∨ (truthy (Spec.Tls.caPath ⟨cr, ch, caf, cap, sh, none⟩ ⟨b, f, d⟩)).isSome = true
                then CaSource.locations (Spec.Tls.caFile ⟨cr, ch, caf, cap, sh, none⟩ ⟨b, f, d⟩)
                  (Spec.Tls.caPath ⟨cr, ch, caf, cap, sh, none⟩ ⟨b, f, d⟩)
                else CaSource.default)
        = Spec.Tls.caSource ⟨cr, ch, caf, cap, sh, none⟩ ⟨b, f, d⟩ := rfl
    rw [hca]
    cases hcr : cr.getD .required with
    | none =>
      by_cases hc : ch = some true <;> simp [hc]
    | optional => simp
    | required => simp

end WS.Props.C11
