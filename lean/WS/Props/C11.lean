/-
  WS.Props.C11 — TLS peers are authenticated by default; only explicit options relax it.
  What Lean decides is the *decision logic* of `_ssl_socket` / `_wrap_sni_socket` and the ordering
  dial → [CONNECT] → wrap → request; that CPython/OpenSSL enforce `verify_mode` and
  `check_hostname` is trusted (exercised by the loopback-TLS support run of the thorough tier).

  Model: WS.Model.Tls, WS.Model.Connect.   Spec: WS.Spec.TlsPolicy (from the documentation).
-/
import WS.Spec.TlsPolicy
import WS.Model.Tls
import WS.Model.Connect
import WS.Lemmas.TlsOrder
namespace WS.Props.C11
open WS WS.PyH2 WS.H2 WS.Model.Http WS.Model.Tls WS.Model.Connect
open WS.Spec.Tls WS.Lemmas.Connect WS.Lemmas.TlsOrder

/-- generated facts (T): the defaults and the shape of the selection in `_wrap_sni_socket` /
    `_ssl_socket` / `_http.connect` as read from the source on this run. A flipped default
    (certificate required, host name checked), a changed comparison or a wrap that is not
    conditioned on `is_secure` makes this theorem — and everything below — fail to compile. -/
theorem generated_facts :
    Gen.sslDefaultCertReqs = "ssl.CERT_REQUIRED" ∧ Gen.sslDefaultCheckHostname = true ∧
    Gen.h2WrapLoadCertDefault = "ssl.CERT_NONE" ∧ Gen.h2WrapCondCertDefault = "ssl.CERT_NONE" ∧
    Gen.h2WrapCondCheckDefault = false ∧ Gen.h2WrapBodyCheck = false ∧
    Gen.h2WrapBodyVerify = "ssl.CERT_NONE" ∧ Gen.h2WrapElseCheckDefault = true ∧
    Gen.h2WrapElseCertDefault = "ssl.CERT_REQUIRED" ∧ Gen.h2WrapSniIsHostname = true ∧
    Gen.h2WrapIffSecure = true := by decide

private theorem wrapSni_eq (v : CertReqs) (ch : Option Bool) (caf cap : Option Str) (nm : Str) (lg : Bool) :
    wrapSni ⟨some v, ch, caf, cap, none, lg⟩ nm =
      match v with
      | .none => if ch = some true then .error .valueError else .ok (.fresh .none false .unset nm)
      | v => .ok (.fresh v (ch.getD true)
                (if (truthy caf).isSome ∨ (truthy cap).isSome then .locations caf cap else .default) nm) := by
  have e2 : certOf Gen.h2WrapLoadCertDefault = .none := by decide
  have e3 : certOf Gen.h2WrapCondCertDefault = .none := by decide
  have e4 : certOf Gen.h2WrapBodyVerify = .none := by decide
  have e5 : certOf Gen.h2WrapElseCertDefault = .required := by decide
  have e6 : Gen.h2WrapCondCheckDefault = false := by decide
  have e7 : Gen.h2WrapBodyCheck = false := by decide
  have e8 : Gen.h2WrapElseCheckDefault = true := by decide
  unfold wrapSni
  simp only [e2, e3, e4, e5, e6, e7, e8, Option.getD_some]
  by_cases hca : (truthy caf).isSome = true ∨ (truthy cap).isSome = true
  · rcases ch with _ | c
    · cases v <;> cases lg <;> simp [hca, setCheck, setVerify, PyCtx.fresh, PyCtx.freshOf]
    · cases c <;> cases v <;> cases lg <;> simp [hca, setCheck, setVerify, PyCtx.fresh, PyCtx.freshOf]
  · rcases ch with _ | c
    · cases v <;> cases lg <;> simp [hca, setCheck, setVerify, PyCtx.fresh, PyCtx.freshOf]
    · cases c <;> cases v <;> cases lg <;> simp [hca, setCheck, setVerify, PyCtx.fresh, PyCtx.freshOf]

private theorem isSome_false_eq_none {α : Type} (o : Option α) (h : o.isSome = false) : o = none := by
  cases o <;> simp_all

private theorem cafile_eq (cr : Option CertReqs) (ch : Option Bool) (b caf cap sh : Option Str)
    (cx : Option Nat) (f d : Bool) :
    (if ((truthy b).isSome && f && caf.isNone) = true then truthy b else caf)
      = Spec.Tls.caFile ⟨cr, ch, caf, cap, sh, cx, lg⟩ ⟨b, f, d⟩ := by
  have hg : Spec.Tls.given b = truthy b := rfl
  unfold Spec.Tls.caFile
  cases caf with
  | some x => simp
  | none =>
    rw [hg]
    cases f with
    | false => simp
    | true =>
      cases hb : (truthy b).isSome with
      | true => simp
      | false => simp [isSome_false_eq_none _ hb]

private theorem capath_eq (cr : Option CertReqs) (ch : Option Bool) (b caf cap sh : Option Str)
    (cx : Option Nat) (f d : Bool) (hfd : ¬ (f = true ∧ d = true)) :
    (if (!((truthy b).isSome && f && caf.isNone) && (truthy b).isSome && d && cap.isNone) = true
      then truthy b else cap)
      = Spec.Tls.caPath ⟨cr, ch, caf, cap, sh, cx, lg⟩ ⟨b, f, d⟩ := by
  have hg : Spec.Tls.given b = truthy b := rfl
  unfold Spec.Tls.caPath
  cases cap with
  | some x => simp
  | none =>
    rw [hg]
    cases d with
    | false => simp
    | true =>
      have hf : f = false := by cases f <;> simp_all
      subst hf
      cases hb : (truthy b).isSome with
      | true => simp
      | false => simp [isSome_false_eq_none _ hb]

/-- **C11_policy** (Model ⊨ Spec, all option combinations): for every `sslopt`, every value of
    `WEBSOCKET_CLIENT_CA_BUNDLE` (file, directory, neither) and every URL host, the context
    `_ssl_socket` builds and the name it passes to `wrap_socket` are exactly the documented policy;
    the one refused combination (CERT_NONE together with check_hostname=True) raises before anything
    is wrapped or sent. (A path cannot be a file and a directory at once.) -/
theorem C11_policy (o : SslOpt) (env : TlsEnv) (host : Str)
    (hfd : ¬ (env.isFile = true ∧ env.isDir = true)) :
    sslSocket o env host =
      match Spec.Tls.tlsPolicy o env host with
      | some p => .ok p
      | none => .error .valueError := by
  obtain ⟨cr, ch, caf, cap, sh, cx, lg⟩ := o
  obtain ⟨b, f, d⟩ := env
  have e1 : certOf Gen.sslDefaultCertReqs = .required := by decide
  have hname : effectiveName ⟨cr, ch, caf, cap, sh, cx, lg⟩ host
      = Spec.Tls.peerName ⟨cr, ch, caf, cap, sh, cx, lg⟩ host := by
    unfold effectiveName Spec.Tls.peerName
    rfl
  cases cx with
  | some c =>
    simp only [sslSocket, wrapSni, Spec.Tls.tlsPolicy]
    rw [hname]
  | none =>
    simp only [sslSocket, e1, Spec.Tls.tlsPolicy]
    rw [hname, wrapSni_eq, cafile_eq cr ch b caf cap sh none f d, capath_eq cr ch b caf cap sh none f d hfd]
    generalize Spec.Tls.peerName ⟨cr, ch, caf, cap, sh, none, lg⟩ host = nm
    have hca : (if (truthy (Spec.Tls.caFile ⟨cr, ch, caf, cap, sh, none, lg⟩ ⟨b, f, d⟩)).isSome = true
                  ∨ (truthy (Spec.Tls.caPath ⟨cr, ch, caf, cap, sh, none, lg⟩ ⟨b, f, d⟩)).isSome = true
                then CaSource.locations (Spec.Tls.caFile ⟨cr, ch, caf, cap, sh, none, lg⟩ ⟨b, f, d⟩)
                  (Spec.Tls.caPath ⟨cr, ch, caf, cap, sh, none, lg⟩ ⟨b, f, d⟩)
                else CaSource.default)
        = Spec.Tls.caSource ⟨cr, ch, caf, cap, sh, none, lg⟩ ⟨b, f, d⟩ := rfl
    rw [hca]
    cases hcr : cr.getD .required with
    | none =>
      by_cases hc : ch = some true <;> simp [hc]
    | optional => simp
    | required => simp


/-- **C11_default** — with no `sslopt` at all: the chain is verified (CERT_REQUIRED), the host name
    is checked, the name checked and sent as SNI is the URL's host, and the trust store is the
    system's (or the bundle `WEBSOCKET_CLIENT_CA_BUNDLE` names). -/
theorem C11_default (env : TlsEnv) (host : Str) (hfd : ¬ (env.isFile = true ∧ env.isDir = true)) :
    sslSocket {} env host = .ok (.fresh .required true (caSource {} env) host) ∧
    sslSocket {} {} host = .ok (.fresh .required true .default host) := by
  constructor
  · rw [C11_policy {} env host hfd]; rfl
  · rw [C11_policy {} {} host (by decide)]; rfl

/-- **C11_only_own_check** (1) — a custom CA file, CA directory or the environment bundle only change
    the trust store: verification mode, host-name check, the name checked and the kind of context
    are what they are without them. -/
theorem C11_only_own_check_ca (o : SslOpt) (env env' : TlsEnv) (host : Str) (caf cap : Option Str) :
    let a := tlsPolicy { o with caCerts := caf, caCertPath := cap } env' host
    let b := tlsPolicy o env host
    a.map Policy.verify = b.map Policy.verify ∧ a.map Policy.check = b.map Policy.check ∧
    a.map Policy.sni = b.map Policy.sni ∧ a.map Policy.userCtx = b.map Policy.userCtx := by
  obtain ⟨cr, ch, f0, p0, sh, cx, lg⟩ := o
  simp only [tlsPolicy, peerName]
  cases cx with
  | some c => simp [Policy.verify, Policy.check, Policy.sni, Policy.userCtx]
  | none =>
    cases hcr : cr.getD .required <;> simp only [] <;>
      (try (by_cases hc : ch = some true <;> simp [hc, Policy.verify, Policy.check, Policy.sni, Policy.userCtx])) <;>
      simp [Policy.verify, Policy.check, Policy.sni, Policy.userCtx]

/-- (2) — `server_hostname` only changes the name that is checked / sent as SNI. -/
theorem C11_only_own_check_sni (o : SslOpt) (env : TlsEnv) (host : Str) (sh : Option Str) :
    let a := tlsPolicy { o with serverHostname := sh } env host
    let b := tlsPolicy o env host
    a.map Policy.verify = b.map Policy.verify ∧ a.map Policy.check = b.map Policy.check ∧
    a.map Policy.ca = b.map Policy.ca ∧ a.map Policy.userCtx = b.map Policy.userCtx ∧
    (∀ s, given sh = some s → a.map Policy.sni = b.map (fun _ => s)) := by
  obtain ⟨cr, ch, f0, p0, sh0, cx, lg⟩ := o
  have hca : caSource ⟨cr, ch, f0, p0, sh, cx, lg⟩ env = caSource ⟨cr, ch, f0, p0, sh0, cx, lg⟩ env := rfl
  have hpn : ∀ s, given sh = some s → peerName ⟨cr, ch, f0, p0, sh, cx, lg⟩ host = s := by
    intro s hs; simp only [peerName, hs]
  simp only [tlsPolicy]
  generalize hn1 : peerName ⟨cr, ch, f0, p0, sh, cx, lg⟩ host = n1 at hpn
  generalize peerName ⟨cr, ch, f0, p0, sh0, cx, lg⟩ host = n0
  rw [hca]
  generalize caSource ⟨cr, ch, f0, p0, sh0, cx, lg⟩ env = ca
  cases cx with
  | some c =>
    refine ⟨rfl, rfl, rfl, rfl, ?_⟩
    intro s hs; rw [hpn s hs]; rfl
  | none =>
    simp only
    cases cr.getD .required with
    | none =>
      simp only
      by_cases hc : ch = some true
      · simp only [if_pos hc]
        refine ⟨?_, ?_, ?_, ?_, ?_⟩ <;> first | rfl | trivial | (intro _ _; rfl)
      · simp only [if_neg hc]
        refine ⟨rfl, rfl, rfl, rfl, ?_⟩
        intro s hs; rw [hpn s hs]; rfl
    | optional =>
      refine ⟨rfl, rfl, rfl, rfl, ?_⟩
      intro s hs; rw [hpn s hs]; rfl
    | required =>
      refine ⟨rfl, rfl, rfl, rfl, ?_⟩
      intro s hs; rw [hpn s hs]; rfl

/-- (3) — `check_hostname = False` switches the host-name check off and nothing else: the chain is
    still verified with the same mode against the same trust store. -/
theorem C11_only_own_check_hostname (o : SslOpt) (env : TlsEnv) (host : Str)
    (hctx : o.context = none) (hv : o.certReqs ≠ some .none) :
    tlsPolicy { o with checkHostname := some false } env host
      = some (.fresh (o.certReqs.getD .required) false (caSource o env) (peerName o host)) ∧
    tlsPolicy { o with checkHostname := none } env host
      = some (.fresh (o.certReqs.getD .required) true (caSource o env) (peerName o host)) := by
  obtain ⟨cr, ch, f0, p0, sh0, cx, lg⟩ := o
  simp only at hctx hv
  subst hctx
  have hca : ∀ c, caSource ⟨cr, c, f0, p0, sh0, none, lg⟩ env = caSource ⟨cr, ch, f0, p0, sh0, none, lg⟩ env :=
    fun _ => rfl
  have hpn : ∀ c, peerName ⟨cr, c, f0, p0, sh0, none, lg⟩ host = peerName ⟨cr, ch, f0, p0, sh0, none, lg⟩ host :=
    fun _ => rfl
  simp only [tlsPolicy, hca, hpn]
  generalize caSource ⟨cr, ch, f0, p0, sh0, none, lg⟩ env = ca
  generalize peerName ⟨cr, ch, f0, p0, sh0, none, lg⟩ host = nm
  rcases cr with _ | c
  · exact ⟨rfl, rfl⟩
  · cases c
    · exact absurd rfl hv
    · exact ⟨rfl, rfl⟩
    · exact ⟨rfl, rfl⟩

/-- (4) — `cert_reqs = CERT_NONE` switches verification off (no chain, hence no name check); asking
    for a name check on an unverified chain is refused; CERT_OPTIONAL / CERT_REQUIRED keep the
    name check unless it is switched off explicitly. -/
theorem C11_only_own_check_cert (o : SslOpt) (env : TlsEnv) (host : Str) (hctx : o.context = none) :
    (o.checkHostname ≠ some true →
      tlsPolicy { o with certReqs := some .none } env host = some (.fresh .none false .unset (peerName o host))) ∧
    (o.checkHostname = some true → tlsPolicy { o with certReqs := some .none } env host = none) ∧
    (∀ v, v ≠ CertReqs.none →
      tlsPolicy { o with certReqs := some v } env host
        = some (.fresh v (o.checkHostname.getD true) (caSource o env) (peerName o host))) := by
  obtain ⟨cr, ch, f0, p0, sh0, cx, lg⟩ := o
  simp only at hctx
  subst hctx
  have hca : ∀ c, caSource ⟨c, ch, f0, p0, sh0, none, lg⟩ env = caSource ⟨cr, ch, f0, p0, sh0, none, lg⟩ env :=
    fun _ => rfl
  have hpn : ∀ c, peerName ⟨c, ch, f0, p0, sh0, none, lg⟩ host = peerName ⟨cr, ch, f0, p0, sh0, none, lg⟩ host :=
    fun _ => rfl
  simp only [tlsPolicy, hca, hpn]
  generalize caSource ⟨cr, ch, f0, p0, sh0, none, lg⟩ env = ca
  generalize peerName ⟨cr, ch, f0, p0, sh0, none, lg⟩ host = nm
  refine ⟨?_, ?_, ?_⟩
  · intro h; simp only [Option.getD_some, if_neg h]
  · intro h; simp only [Option.getD_some, if_pos h]
  · intro v hv; cases v
    · exact absurd rfl hv
    · rfl
    · rfl

/-- (5) — a caller-made context is used as it is; only the name passed to `wrap_socket` is chosen. -/
theorem C11_only_own_check_context (o : SslOpt) (env : TlsEnv) (host : Str) (c : Nat)
    (h : o.context = some c) : tlsPolicy o env host = some (.user c (peerName o host)) := by
  obtain ⟨cr, ch, f0, p0, sh0, cx, lg⟩ := o
  simp only at h
  subst h
  rfl

/-- **C11_wrap_iff_wss** — `_http.connect` wraps the transport exactly for a secure URL: a wrap event
    implies `is_secure`; a successful call for a secure URL contains one successful wrap with the
    computed (= documented, C11_policy) policy after the dial and the proxy plaintext and before
    anything else; for a `ws://` URL no wrap event occurs at all. -/
theorem C11_wrap_iff_wss (env : Env) (d : Dial) (i : Nat) (url : Str)
    (res : Except HExn (Sock × UrlParts)) (ev : List Ev) (u : UrlParts)
    (h : httpConnect env d i url none = (res, ev)) (hu : env.parseUrl url = .ok u) :
    ((∃ j p ok, Ev.wrap j p ok ∈ ev) → u.secure = true) ∧
    (∀ s u', res = .ok (s, u') → u' = u ∧
      ∃ ev1, (∀ e ∈ ev1, ∃ x, e = Ev.plain i x) ∧
        ((u.secure = true ∧ ∃ p, sslSocket env.sslopt env.tlsEnv u.host = .ok p ∧
            ev = Ev.dial i u :: ev1 ++ [Ev.wrap i p true]) ∨
         (u.secure = false ∧ ev = Ev.dial i u :: ev1))) := by
  constructor
  · rintro ⟨j, p, ok, hm⟩
    unfold httpConnect at h
    rw [hu] at h
    simp only at h
    cases ha : d.addr with
    | error e' => rw [ha] at h; simp only at h; cases h; cases hm
    | ok _ =>
      rw [ha] at h
      simp only at h
      have hpl := tunnelStep_events (env.proxy u) d i u
      cases ht : tunnelStep (env.proxy u) d i u with
      | mk r1 rest =>
        obtain ⟨s1, ev1⟩ := rest
        rw [ht] at h hpl
        simp only at hpl
        have hnot : ∀ tl : List Ev, (∀ e ∈ tl, ∀ j p ok, e ≠ Ev.wrap j p ok) →
            Ev.wrap j p ok ∉ Ev.dial i u :: ev1 ++ tl := by
          intro tl htl hm'
          rcases List.mem_cons.mp hm' with hm' | hm'
          · cases hm'
          · rcases List.mem_append.mp hm' with hm' | hm'
            · obtain ⟨x, hx⟩ := hpl _ hm'; cases hx
            · exact htl _ hm' j p ok rfl
        cases r1 with
        | error e1 =>
          simp only at h; cases h
          exact absurd hm (hnot [Ev.close i] (by intro e he; simp at he; subst he; intro _ _ _ hc; cases hc))
        | ok _ =>
          simp only at h
          by_cases hsec : u.secure = true
          · exact hsec
          · rw [if_neg hsec] at h
            cases h
            exact absurd (by simpa using hm) (hnot [] (by intro e he; cases he))
  · intro s u' hres
    subst hres
    obtain ⟨hpu, hshape⟩ := httpConnect_ok_shape h
    rw [hu] at hpu
    cases hpu
    exact ⟨rfl, hshape⟩

/-- **C11_before_data** — in every trace of `WebSocket.connect` (any world, any options, redirects,
    failures at any point, directly or through a proxy tunnel), for every write of handshake bytes
    on a transport `j` that was dialled for a secure URL with parts `u`, a successful wrap of `j`
    precedes the write, and its policy is the documented one for `u.host`.  (A socket supplied by
    the caller is not dialled by the library and is used as given.) -/
theorem C11_before_data (env : Env) (world : Nat → Dial) (url : Str) (o : Opts) (limit : Option Nat)
    (userSock : Option Sock) (hfd : ¬ (env.tlsEnv.isFile = true ∧ env.tlsEnv.isDir = true))
    (pre post : List Ev) (j : Nat) (bs : Bytes)
    (hsplit : (connect env world url o limit userSock {}).trace = pre ++ Ev.io j (.write bs) :: post)
    (u : UrlParts) (hdial : Ev.dial j u ∈ pre) (hsec : u.secure = true) :
    ∃ p, Ev.wrap j p true ∈ pre ∧ tlsPolicy env.sslopt env.tlsEnv u.host = some p := by
  have hord := connect_ordered env world url o limit userSock
  have hok := ordered_split env [] _ hord pre post _ hsplit
  simp only [okAt, List.nil_append] at hok
  obtain ⟨p, hp, hpol⟩ := hok u hdial hsec
  refine ⟨p, hp, ?_⟩
  rw [C11_policy env.sslopt env.tlsEnv u.host hfd] at hpol
  cases hs : tlsPolicy env.sslopt env.tlsEnv u.host with
  | none => rw [hs] at hpol; cases hpol
  | some q => rw [hs] at hpol; cases hpol; rfl

/-- the same as an executable check (the form the oracle applies to the timeline of the *real*
    code): the Spec's monitor `orderedB` accepts every trace of the model. -/
theorem C11_before_data_exec (env : Env) (world : Nat → Dial) (url : Str) (o : Opts) (limit : Option Nat)
    (userSock : Option Sock) (hfd : ¬ (env.tlsEnv.isFile = true ∧ env.tlsEnv.isDir = true)) :
    orderedB (fun host => tlsPolicy env.sslopt env.tlsEnv host) []
      (connect env world url o limit userSock {}).trace = true := by
  apply ordered_imp_orderedB env _ _ [] _ (connect_ordered env world url o limit userSock)
  intro host p hsp
  rw [C11_policy env.sslopt env.tlsEnv host hfd] at hsp
  cases hs : tlsPolicy env.sslopt env.tlsEnv host with
  | none => rw [hs] at hsp; cases hsp
  | some q => rw [hs] at hsp; cases hsp; rfl

/-- non-vacuity: a wss connect through a proxy tunnel — CONNECT in the clear, then the wrap, then the
    request; a ws connect is never wrapped. -/
private def demoEnv (secure : Bool) (tunnel : Bool) : Env :=
  { acceptOf := fun _ => "x".toList
    parseUrl := fun _ => .ok ⟨"h".toList, 443, "/".toList, secure⟩
    proxy := fun _ => { tunnel := tunnel }
    sslopt := {}
    tlsEnv := {} }

private def bytesOf (s : String) : List HEv := (encodeUtf8 s.toList).map HEv.byte

private def peer (tunnel : Bool) : Dial :=
  { sock := ⟨(if tunnel then bytesOf "HTTP/1.1 200 OK\r\n\r\n" else []) ++
      bytesOf "HTTP/1.1 101 OK\r\nUpgrade: websocket\r\nConnection: Upgrade\r\nSec-WebSocket-Accept: x\r\n\r\n",
      .eof, none⟩ }

example :
    ((connect (demoEnv true true) (fun _ => peer true) "wss://h/".toList {} none none {}).trace.map
        (fun e => match e with
          | .dial _ _ => 0 | .plain _ (.write _) => 1 | .plain _ _ => 2 | .wrap _ _ true => 3
          | .io _ (.write _) => 4 | .io _ _ => 5 | _ => 6)).eraseDups = [0, 1, 2, 3, 4, 5] ∧
    (connect (demoEnv true true) (fun _ => peer true) "wss://h/".toList {} none none {}).res = .ok () ∧
    (connect (demoEnv false false) (fun _ => peer false) "ws://h/".toList {} none none {}).trace.all
        (fun e => match e with | .wrap _ _ _ => false | _ => true) = true := by
  decide +kernel

/-- **C11_ssl_version_cannot_relax** — the `ssl_version` option (which protocol constant the context is created for)
    is NOT one of the options that may relax authentication: although a context made for a legacy constant starts with
    verification switched off (`PyCtx.freshOf true` = CERT_NONE, no host-name check), `_ssl_socket` sets BOTH attributes
    explicitly on every path, so the policy it ends with — and the refusal of CERT_NONE + check_hostname — is the same
    for every `sslopt`, environment and host whichever constant was asked for. -/
theorem C11_ssl_version_cannot_relax (o : SslOpt) (env : TlsEnv) (host : Str) (lg : Bool)
    (hfd : ¬ (env.isFile = true ∧ env.isDir = true)) :
    sslSocket { o with legacy := lg } env host = sslSocket o env host := by
  rw [C11_policy _ env host hfd, C11_policy o env host hfd]
  rfl

/-- the initial states really differ (so the theorem above is not vacuous) -/
example : PyCtx.freshOf true ≠ PyCtx.freshOf false := by decide

end WS.Props.C11
