/-
  WS.Props.C08c — C08, "once the connection has been … lost, the transport is released".
-/
import WS.Lemmas.Loss
import WS.Props.C08
namespace WS.Props.C08c
open WS WS.Model WS.Lemmas.OwnClose WS.Lemmas.Loss

/-- **C08_released_consistent** — over EVERY sequence of client calls (send, ping, pong, recv, recv_data,
    recv_data_frame, recv_frame, send_close, close, shutdown, abort — any arguments) interleaved with EVERY server
    script (data, pings, close frames, end of stream, silence, resets, any chunking and timing): at every point where
    the object holds no transport (`sock is None`) it is unconnected and the transport it held HAS BEEN CLOSED —
    there is no state "released but still connected" or "reference dropped, descriptor left open". -/
theorem C08_released_consistent (c : Conn) (h0 : c.hasSock = true) (ops : List Op) :
    (runOps c ops).hasSock = false → (runOps c ops).connected = false ∧ (runOps c ops).sock.closed = true :=
  runOps_rel ops c (fun h => by rw [h0] at h; cases h)

/-- **C08_loss_releases** — a receive call that raises the connection-closed exception (the peer ended the stream, at
    whatever byte position, after whatever traffic and automatic replies — or the object had been released before)
    leaves the object released: no transport reference, `connected = False`, transport closed. -/
theorem C08_loss_releases (c : Conn) (cf : Bool) (hinv : c.hasSock = false → c.connected = false ∧ c.sock.closed = true)
    (hc : (c.recvDataFrame cf).1 = .error .closed) :
    (c.recvDataFrame cf).2.hasSock = false ∧ (c.recvDataFrame cf).2.connected = false ∧
    (c.recvDataFrame cf).2.sock.closed = true := by
  have h := recvDataFrameLoop_loss (c.sock.size + c.buf.length + 2) cf c
  unfold Conn.recvDataFrame at hc ⊢
  have hs : (Conn.recvDataFrameLoop (c.sock.size + c.buf.length + 2) c cf).2.hasSock = false := by
    apply h.2
    rw [hc]; rfl
  exact ⟨hs, h.1 hinv hs⟩

/-- the same for a send: CLOSED is raised only by an object that is (and stays) released. -/
theorem C08_send_closed_released (c : Conn) (p : Bytes) (op : Nat) (hc : (c.send p op).1 = .error .closed) :
    (c.send p op).2.hasSock = false := by
  have h := sendFrame_loss c (createFrame p op)
  unfold Conn.send at hc ⊢
  apply h.2
  rw [hc]; rfl

/-- non-vacuity: end of stream in the middle of a frame — `recv` raises CLOSED and the object is released. -/
example : errE (({ sock := { inp := [.chunk [0x81, 0x05, 0x61], .eof] } } : Conn).recvDataFrame false).1 = some .closed ∧
    (({ sock := { inp := [.chunk [0x81, 0x05, 0x61], .eof] } } : Conn).recvDataFrame false).2.hasSock = false := by decide

end WS.Props.C08c
