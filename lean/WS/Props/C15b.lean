/-
  WS.Props.C15b — `C15_retry` with the ping thread running (any interval ≥ 0, no ping timeout, every schedule): a corollary of
  `C13b.C13_keepalive_transparent`.
-/
import WS.Props.C14c
import WS.Props.C15
namespace WS.Props.C15b
open WS WS.Model.App WS.Lemmas.App WS.Lemmas.App.KA WS.Spec.AppTrace WS.Props.C14c

/-- **C15_retry_keepalive** — `C15_retry` with keepalive on (no ping timeout), every schedule of the ping thread: the same
    network skeleton (first attempt, `sleep r` before each further attempt exactly `r` later, every failed socket released
    before the next dial, no dial after the server's close frame, return True) and the same callbacks (the first failure
    reported once, nothing during the retries, on_reconnect / on_open first on the new connection, the traffic delivered as in
    C13, on_close once at the end with the close frame's code and reason). -/
theorem C15_retry_keepalive (c : Cfg) (hq : Quiet c) (hto : c.to = none) (hiv : 0 ≤ c.iv)
    (hr : c.reconnect ≠ 0) (s0 : St) (d : Dial) (ds : List Dial) (legal : List TEv) (te : TEv) (body : Bytes)
    (hs0 : s0.sock = none)
    (hd : s0.dials = (d :: ds) ++ [.established (legal ++ [te])])
    (hfails : ∀ x ∈ d :: ds, isFail x = true)
    (hleg : ∀ e ∈ legal, isLegal e.ev = true) (hk : te.ev = .close body)
    (hfuel : need0 (selectTimeout c) (legal ++ [te]) + 1 ≤ c.fuel) (hfuel2 : ds.length + 2 ≤ c.fuel)
    (hz : endTime (s0.now + (ds.length + 1) * c.reconnect) (legal ++ [te]) ≤ c.horizon) :
    let r := c.reconnect
    let tK := s0.now + ds.length * r
    let iK := s0.nextIdx + 1 + ds.length
    let tEnd := endTime (tK + r) (legal ++ [te])
    (runForeverO c s0).2 = .returned true ∧
    netOnly (runForever c s0).trace =
      netOnly s0.trace ++ [(s0.now, .dial s0.nextIdx), (s0.now, .sockClosed s0.nextIdx)] ++
        retryTrace r s0.now (s0.nextIdx + 1) ds.length ++
        [(tK, .sleep r), (tK + r, .dial iK), (tEnd, .sockDropped iK), (tEnd, .returned true)] ∧
    ∃ calls1 calls2, cbOnly (runForever c s0).trace =
      cbOnly s0.trace ++ cbTrace c s0.calls s0.now .onError [.exn (dialExn d)] ++
        expectedConn c.has c.plan calls1 (tK + r) (openCb c true) (legal ++ [te]) ++
        cbTrace c calls2 tEnd .onClose (closeArgs c (some body)) := by
  intro r tK iK tEnd
  obtain ⟨htr, ho, _⟩ := C13b.C13_keepalive_transparent c hto hiv s0
  obtain ⟨h1, h2, calls1, calls2, h3⟩ :=
    C15.C15_retry (off c) hq (acc_off c hto) rfl hr (P s0) d ds legal te body hs0 rfl hd hfails hleg hk hfuel hfuel2 hz
  refine ⟨by rw [ho]; exact h1, ?_, calls1, calls2, ?_⟩
  · rw [← netOnly_strip, htr, h2]
    have : netOnly (P s0).trace = netOnly s0.trace := netOnly_strip s0.trace
    rw [this]
    rfl
  · rw [← C13b.cbOnly_strip, htr, h3]
    have : cbOnly (P s0).trace = cbOnly s0.trace := C13b.cbOnly_strip s0.trace
    rw [this]
    rfl

/-- generated fact (F18's repair): the FIRST statement of `setSock` is
    `if reconnecting and not self.keep_running: teardown(); return` — a reconnect that comes due after the application has
    closed is not made.  A seeded change that removes or reshapes it breaks this obligation. -/
theorem reconnect_guard_in_source : Gen.appReconnectGuard = true := by decide

/-- in the model's worlds that guard is never taken: `keep_running` is tested at the head of the reconnect loop and neither
    the `sleep` event nor the wait (the ping thread may run in it) changes it — only a close() from ANOTHER thread during the
    wait can, which is what the real runs with a second thread cover (`closer-in-the-gap` scenarios). -/
theorem C15_wait_keeps_running (c : Cfg) (s : St) (t : Nat) :
    (waitUntil c (s.emit (.sleep c.reconnect)) t).1.keepRunning = s.keepRunning := by
  rw [(frame_waitUntil c _ t).kr]; rfl

/-- **reconnectLoopG_eq** — the reconnect loop over `setSock` WITH the guard the code now has is, in every world of the model,
    the loop over `setSock` without it: the model the theorems are about is the code's behaviour (by induction on the
    iterations; the state handed to `setSock` has `keep_running` on because the head of the loop tested it and the wait leaves it
    alone). -/
theorem reconnectLoopG_eq (c : Cfg) : ∀ (n : Nat) (s : St), reconnectLoopG c n s = reconnectLoop c n s := by
  intro n
  induction n with
  | zero => intro s; rfl
  | succ m ih =>
    intro s
    rw [reconnectLoopG, reconnectLoop]
    by_cases hk : s.keepRunning = true
    · simp only [hk, Bool.not_true, Bool.false_eq_true, ↓reduceIte]
      have hkr := C15_wait_keeps_running c s ((s.emit (.sleep c.reconnect)).now + c.reconnect)
      rcases hw : waitUntil c (s.emit (.sleep c.reconnect)) ((s.emit (.sleep c.reconnect)).now + c.reconnect) with ⟨s2, ok⟩
      rw [hw] at hkr
      simp only [] at hkr ⊢
      cases ok with
      | false => rfl
      | true =>
        simp only [Bool.not_true, Bool.false_eq_true, ↓reduceIte]
        have hg : setSockG c s2 true = setSock c s2 true := by
          unfold setSockG
          have : s2.keepRunning = true := by rw [hkr]; exact hk
          simp [this]
        rw [hg]
        have : reconnectLoopG c m = reconnectLoop c m := funext ih
        rw [this]
    · simp only [hk, Bool.not_false, ↓reduceIte]

/-- and the first connection of a run is not a reconnection: the guard does not apply -/
theorem setSockG_first (c : Cfg) (s : St) : setSockG c s false = setSock c s false := by
  unfold setSockG; simp

end WS.Props.C15b
