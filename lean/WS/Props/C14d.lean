/-
  WS.Props.C14d — once `keep_running` is cleared — the application's own close(), from a callback or otherwise, or teardown —
  whatever remains of the run is QUIET: no further connection attempt (C15) and nothing reported to on_error but a user
  callback's own exception or a KeyboardInterrupt (C14: a run that simply ended through close() has not errored).
-/
import WS.Lemmas.AppStopped
import WS.Props.C14
namespace WS.Props.C14d
open WS WS.Model.App WS.Lemmas.App WS.Lemmas.App.Stopped

/-- the events a function added to the trace of `s` are all quiet -/
def AddsOnlyQuiet (s s' : St) : Prop :=
  ∀ i te, s.trace.length ≤ i → s'.trace[i]? = some te →
    (∀ j, te.2 ≠ .dial j) ∧
    (∀ x, te.2 = .cb .onError [.exn x] → Spec.AppTrace.AExn.isUser x = true ∨ x = .ki)

/-- **C14_quiet_once_stopped** — for EVERY configuration (callbacks, plans that raise / close / interrupt, keepalive,
    reconnect, TLS-style or plain), every world and every state in which `keep_running` is off: each continuation of
    `run_forever` — the rest of a dispatcher loop, the reconnect loop, the handling of ANY exception the loop trips over on its
    way out (`handleDisconnect`, reconnecting or not), a `read()`, the code after the opening callback, the `finally`
    teardown, any callback other than on_error — leaves `keep_running` off and adds only quiet events: no `dial`, and no
    on_error report other than a user callback's own exception or a KeyboardInterrupt. -/
theorem C14_quiet_once_stopped (c : Cfg) (s : St) (hk : s.keepRunning = false) :
    (∀ n, AddsOnlyQuiet s (dispLoop c n s).1 ∧ (dispLoop c n s).1.keepRunning = false) ∧
    (∀ n, AddsOnlyQuiet s (reconnectLoop c n s).1 ∧ (reconnectLoop c n s).1.keepRunning = false) ∧
    (∀ e rc, AddsOnlyQuiet s (handleDisconnect c s e rc).1 ∧ (handleDisconnect c s e rc).1.keepRunning = false) ∧
    (AddsOnlyQuiet s (Model.App.read c s).1 ∧ (Model.App.read c s).1.keepRunning = false) ∧
    (∀ rc r, AddsOnlyQuiet s (afterOpen c rc (s, r)).1 ∧ (afterOpen c rc (s, r)).1.keepRunning = false) ∧
    (∀ rc r, AddsOnlyQuiet s (afterLoop c rc (s, r)).1 ∧ (afterLoop c rc (s, r)).1.keepRunning = false) ∧
    (∀ r, AddsOnlyQuiet s (afterBody c (s, r)).1 ∧ (afterBody c (s, r)).1.keepRunning = false) ∧
    (∀ cb args, cb ≠ .onError → AddsOnlyQuiet s (callback c s cb args).1 ∧ (callback c s cb args).1.keepRunning = false) := by
  have h0 : QS s.trace.length s := ⟨qp_init s, hk⟩
  refine ⟨fun n => qs_dispLoop c _ n s h0, fun n => qs_reconnectLoop c _ n s h0,
    fun e rc => qs_handleDisconnect c _ s e rc h0, qs_read c _ s h0,
    fun rc r => qs_afterOpen c _ rc (s, r) h0, fun rc r => qs_afterLoop c _ rc (s, r) h0,
    fun r => qs_afterBody c _ (s, r) h0,
    fun cb args hne => qs_callback c _ s cb args h0 (q_cb cb args hne)⟩

/-- **C15_no_attempt_after_close** — the application's close() (from any state) clears the loop condition, and from the
    state it leaves, the reconnect loop and the dispatcher loop add no connection attempt and no error report. -/
theorem C15_no_attempt_after_close (c : Cfg) (s : St) (n : Nat) :
    (appClose c s).1.keepRunning = false ∧
    AddsOnlyQuiet (appClose c s).1 (reconnectLoop c n (appClose c s).1).1 ∧
    AddsOnlyQuiet (appClose c s).1 (dispLoop c n (appClose c s).1).1 := by
  have hk : (appClose c s).1.keepRunning = false := (appClose_frame c s).kr
  obtain ⟨h1, h2, _⟩ := C14_quiet_once_stopped c (appClose c s).1 hk
  exact ⟨hk, (h2 n).1, (h1 n).1⟩

/-- non-vacuity, executed on a whole run: reconnect every second, on_message calls close() on the first message; the
    server's reply never comes and the connection ends 5 s later: exactly ONE dial in the whole trace, no on_error event, the
    run returns False. -/
example :
    let c : Cfg := { has := fun _ => true, plan := fun cb => if cb = .onMessage then [.close] else [], iv := 0, to := none,
                     payload := [], reconnect := 1024, ssl := false, horizon := 40000, fuel := 50 }
    let s := runForeverO c { dials := [.established [{ dt := 100, burst := false, ev := .message 1 [0x68] false },
                                                      { dt := 5000, burst := false, ev := .eof }],
                                        .established []] }
    (s.1.trace.filter fun te => match te.2 with | .dial _ => true | _ => false).length = 1 ∧
    (s.1.trace.all fun te => match te.2 with | .cb .onError _ => false | _ => true) = true ∧
    s.2 = .returned false := by decide +kernel

end WS.Props.C14d
