/-
  WS.Props.C20 — property theorems for C20 (cookies replayed only inside their domain).
  Helper lemmas live in WS.Lemmas.Cookie.
-/
import WS.Lemmas.Cookie
namespace WS.Props.C20
open WS WS.Py WS.Lemmas.Cookie
open WS.Model.Cookie
open WS.Spec.Cookie (Response Store record storeOf covers covering Admissible NameSorted)

/-- generated facts (T): `add` lower-cases the domain before looking it up; `get` sorts the
    (name, value) pairs (each false of a tree without the corresponding repair). -/
theorem code_shape : Gen.cookieLookupLowered = true ∧ Gen.cookieSortsPairs = true := cookie_shape

/-- the jar after a history refines the Spec's store after that history. -/
theorem jar_refines_store (hist : List Response) : Rel (jarOf (parsed hist)) (storeOf hist) := by
  rw [jarOf_parsed]
  exact rel_hist hist [] [] rel_nil

/-- **C20_refines** — for every history of responses (any length; any names, values, domains,
    upper or lower case, with or without leading dot, or no domain) and every target host, the
    cookies `get` returns are an admissible answer of the Spec: a permutation of exactly the
    stored cookies whose domain covers the host (latest value per (domain, name)), in
    non-decreasing name order. -/
theorem C20_refines (hist : List Response) (host : Str) (hne : host ≠ []) :
    Admissible hist host (getPairs (jarOf (parsed hist)) host) := by
  have hrel := jar_refines_store hist
  unfold getPairs
  have : host.isEmpty = false := by cases host <;> simp_all
  simp only [this, Bool.false_eq_true, if_false]
  refine ⟨(List.mergeSort_perm _ _).trans (collected_perm _ _ hrel host), ?_⟩
  unfold NameSorted
  exact (List.pairwise_mergeSort pairLe_trans pairLe_total _).imp fun h => pairLe_name _ _ h

/-- the header line: the model renders exactly those pairs, then the caller's cookie
    (`Spec.header` of the admissible pairs). -/
theorem C20_header (hist : List Response) (host client : Str) :
    cookieHeader (jarOf (parsed hist)) host client =
      Spec.Cookie.header (getPairs (jarOf (parsed hist)) host) client := by
  unfold cookieHeader Spec.Cookie.header Model.Cookie.get renderPairs Spec.Cookie.render
  rw [cookie_shape.2]
  congr 1
  simp only [List.filter_cons, List.filter_nil]
  by_cases h1 : (joinStr "; ".toList (List.map (fun nv => nv.1 ++ '=' :: nv.2)
      (getPairs (jarOf (parsed hist)) host))) = [] <;> by_cases h2 : client = [] <;> simp_all

/-- **C20_confined** — a cookie appears in a request to `host` only if it is stored for a
    domain that covers `host` (that domain itself or a subdomain of it, case-insensitively,
    on a label boundary) — never for any other host. -/
theorem C20_confined (hist : List Response) (host n v : Str) (hne : host ≠ [])
    (h : (n, v) ∈ getPairs (jarOf (parsed hist)) host) :
    ∃ d, ((d, n), v) ∈ storeOf hist ∧ covers d host = true := by
  have hp := (C20_refines hist host hne).1
  have hm := hp.mem_iff.mp h
  unfold covering at hm
  obtain ⟨⟨⟨d, n'⟩, v'⟩, hmem, heq⟩ := List.mem_map.mp hm
  simp only [Prod.mk.injEq] at heq
  obtain ⟨rfl, rfl⟩ := heq
  have := List.mem_filter.mp hmem
  exact ⟨d, this.1, this.2⟩

/-- **C20_no_domain_dropped** — a response that names no Domain (or an empty one) changes
    nothing: neither the jar nor any later Cookie header. -/
theorem C20_no_domain_dropped (jar : Jar) (cookies : List (Str × Str)) (dom : Option Str)
    (h : (dom.getD []).isEmpty = true) : add jar (morselsOf cookies dom) = jar :=
  add_no_domain jar cookies dom h

/-- non-vacuity: the two F10 inputs, after the repairs; a look-alike host; no Domain. -/
example :
    getPairs (jarOf [([("a".toList, "1".toList)], some "example.com".toList),
                ([("b".toList, "2".toList)], some "EXAMPLE.COM".toList)]) "example.com".toList
      = [("a".toList, "1".toList), ("b".toList, "2".toList)] :=
  getPairs_of_sorted _ _ _ (by decide) (by decide) (by decide)

example :
    getPairs (jarOf [([("a".toList, "1".toList), ("a1".toList, "2".toList)], some "x.co".toList)])
      "sub.X.co".toList = [("a".toList, "1".toList), ("a1".toList, "2".toList)] :=
  getPairs_of_sorted _ _ _ (by decide) (by decide) (by decide)

example :
    getPairs (jarOf [([("a".toList, "1".toList)], some "x.co".toList)]) "badx.co".toList = [] ∧
    getPairs (jarOf [([("a".toList, "1".toList)], none)]) "x.co".toList = [] :=
  ⟨getPairs_of_sorted _ _ _ (by decide) (by decide) (by decide),
   getPairs_of_sorted _ _ _ (by decide) (by decide) (by decide)⟩

end WS.Props.C20
