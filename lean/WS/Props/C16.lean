/-
  WS.Props.C16 — property theorems for C16 (keepalive): argument validation, periodic pings, no false
  positive for a responsive peer, detection bound for a silent peer.
-/
import WS.Model.App
import WS.Model.Keepalive
import WS.Spec.KeepaliveSpec
import WS.Lemmas.Keepalive
import WS.Lemmas.KeepaliveNFP
namespace WS.Props.C16
open WS WS.Model

/-- the comparisons of the validation in the source are the ones modelled (generated facts; an edit of
    `ping_timeout <= 0`, `ping_interval < 0` or `ping_interval <= ping_timeout` changes the table). -/
theorem arg_checks_in_source :
    Gen.appArgChecks = ["ping_timeout LtE 0", "ping_interval Lt 0", "ping_interval LtE ping_timeout"] := by decide

/-- generated facts about the keepalive code: `_send_ping` waits twice (once before and once inside the loop)
    before the first ping; `check()` compares with `>`, `<`, `>` in this order; the reader loop waits
    `ping_timeout or 10` seconds. -/
theorem keepalive_shape :
    Gen.appPingWaits = 2 ∧ Gen.appCheckOps = ["Gt", "Lt", "Gt"] ∧ Gen.dispatcherDefaultTimeout = 10 := by decide

/-- the liveness predicate of the two models is the same function of (now, last_ping_tm, last_pong_tm):
    `check()` in Model.App (integer arithmetic as in the code) = `checkFails` in Model.Keepalive. -/
theorem C16_check_same (c : App.Cfg) (s : App.St) (k : Keepalive.St) (to : Nat) (hto : c.to = some (to : Int))
    (h0 : to ≠ 0) (h1 : k.now = s.now) (h2 : k.lastPing = s.lastPing) (h3 : k.lastPong = s.lastPong) :
    App.checkFails c s = Keepalive.checkFails to k := by
  unfold App.checkFails Keepalive.checkFails
  simp only [hto, h1, h2, h3]
  by_cases hp : s.lastPing = 0
  · simp [hp]
  · have a1 : ((s.now : Int) - s.lastPing > to) ↔ (s.now - s.lastPing > to) := by omega
    have a2 : ((s.lastPong : Int) - s.lastPing < 0) ↔ (s.lastPong < s.lastPing) := by omega
    have a3 : ((s.lastPong : Int) - s.lastPing > to) ↔ (s.lastPong - s.lastPing > to) := by omega
    have hne : ((to : Int) ≠ 0) := by omega
    by_cases c1 : s.now - s.lastPing > to <;> by_cases c2 : s.lastPong < s.lastPing <;>
      by_cases c3 : s.lastPong - s.lastPing > to <;> simp [a1, a2, a3, c1, c2, c3, hp, hne, h0]

/-- **C16_args** — the settings `run_forever` accepts are exactly the consistent ones:
    timeout absent or positive, interval non-negative, and, when both are in use, interval > timeout. -/
theorem C16_args (iv : Int) (to : Option Int) :
    App.argsAccepted iv to = true ↔
      (to = none ∨ ∃ t, to = some t ∧ t > 0) ∧ iv ≥ 0 ∧
      (∀ t, to = some t → t ≠ 0 → iv ≠ 0 → iv > t) := by
  cases to with
  | none => simp [App.argsAccepted]
  | some t =>
    simp only [App.argsAccepted, Bool.and_eq_true, Bool.not_eq_true', decide_eq_false_iff_not,
      Bool.and_eq_false_iff, bne_iff_ne, ne_eq, Option.some.injEq, reduceCtorEq, false_or,
      exists_eq_left', forall_eq', Bool.not_eq_eq_eq_not, Bool.not_true]
    constructor
    · rintro ⟨⟨h1, h2⟩, h3⟩
      refine ⟨by omega, by omega, fun ht hiv => ?_⟩
      rcases h3 with h | h
      · rcases h with h | h
        · simp_all
        · simp_all
      · omega
    · rintro ⟨h1, h2, h3⟩
      refine ⟨⟨by omega, by omega⟩, ?_⟩
      by_cases ht : t = 0
      · left; left; simp [ht]
      · by_cases hiv : iv = 0
        · left; right; simp [hiv]
        · right; have := h3 ht hiv; omega

/-- the model's validation is the Spec's predicate -/
theorem C16_args_spec (iv : Int) (to : Option Int) :
    App.argsAccepted iv to = Spec.Keepalive.argsOk iv to := by
  cases to with
  | none =>
    simp only [App.argsAccepted, Spec.Keepalive.argsOk]
    by_cases h2 : iv < 0 <;> simp_all <;> omega
  | some t =>
    simp only [App.argsAccepted, Spec.Keepalive.argsOk]
    by_cases h1 : t ≤ 0 <;> by_cases h2 : iv < 0 <;> by_cases h3 : t = 0 <;> by_cases h4 : iv = 0 <;>
      by_cases h5 : iv ≤ t <;> simp_all <;> omega

/-- inconsistent settings are refused before connecting: nothing but the exception is observable -/
theorem C16_args_refused_before_connecting (c : App.Cfg) (s : App.St)
    (h : App.argsAccepted c.iv c.to = false) :
    (App.runForever c s).trace = s.trace ++ [(s.now, .raisedOut .wsgeneric)] := by
  simp [App.runForever, App.runForeverO, h, App.St.emit]

example : App.argsAccepted 3072 (some 2048) = true ∧ App.argsAccepted 2048 (some 2048) = false ∧
    App.argsAccepted 0 (some 5) = true ∧ App.argsAccepted 5 (some 0) = false ∧
    App.argsAccepted (-1) none = false ∧ App.argsAccepted 7 none = true := by decide

open WS.Lemmas.Keepalive in
/-- **C16_periodic** — for every interval, timeout, arrival pattern, schedule, horizon and fuel: the pings
    the run sent are exactly the first `n` of the grid 2·iv, 3·iv, 4·iv, … (one per interval, none missing
    in between, none off the grid), `n` being their number. -/
theorem C16_periodic (iv to horizon fuel : Nat) (arr : List (Nat × Keepalive.Kind)) (sched : List Bool) :
    (Keepalive.run iv to horizon fuel arr sched).1 =
      pingTimes iv (Keepalive.run iv to horizon fuel arr sched).1.length := by
  have h := pinv_loop iv to horizon fuel (Keepalive.init iv arr sched) (pinv_init iv arr sched)
  unfold Keepalive.run
  simp only []
  generalize (Keepalive.loop iv to horizon fuel (Keepalive.init iv arr sched)).1 = s at h
  by_cases hf : s.first = true
  · rw [(h.fst hf).1]; rfl
  · exact (h.rest (by simpa using hf)).2.1

/-- generated facts (repair of F12): `_send_ping` stamps `last_ping_tm` only when the previous ping has been answered
    (`last_pong_tm >= last_ping_tm`), `read()` stamps `last_pong_tm` only for the answer to the outstanding ping
    (`last_pong_tm < last_ping_tm`). -/
theorem stamps_in_source : Gen.appPingStampWhenAnswered = true ∧ Gen.appPongStampWhenOutstanding = true := by decide

open WS.Lemmas.Keepalive in
/-- **C16_detect** — for EVERY interval and timeout, every arrival pattern and schedule: if after `k` iterations of the
    loop (none of which reported or reached the horizon) the ping at `T` has been sent and the peer is silent from then
    on (`Window`: last_ping_tm = T, no pong since, only data frames still to come, the loop has not slept past T + to),
    then the run reports a ping/pong timeout at some tick `r` with `T + to < r ≤ T + 2·to` — no later than two timeouts
    after the first ping the peer failed to answer; the pings that follow it do not postpone the report. -/
theorem C16_detect (iv to horizon T fuel k : Nat) (arr : List (Nat × Keepalive.Kind)) (sched : List Bool)
    (hto : 0 < to) (hz : T + 2 * to ≤ horizon)
    (hq : quietFor iv to horizon k (Keepalive.init iv arr sched))
    (hw : Window iv to T (stepN iv to k (Keepalive.init iv arr sched)))
    (hf : k + arr.length + 2 ≤ fuel) :
    ∃ r, (Keepalive.run iv to horizon fuel arr sched).2 = some r ∧ T + to < r ∧ r ≤ T + 2 * to := by
  unfold Keepalive.run
  simp only []
  obtain ⟨n, rfl⟩ : ∃ n, fuel = k + n := ⟨fuel - k, by omega⟩
  rw [loop_skip iv to horizon k n _ hq]
  refine detect_in_window iv to horizon T hto hz n _ hw ?_
  -- the remaining arrivals are at most the scripted ones
  have hlen : ∀ (j : Nat) (s : Keepalive.St), (stepN iv to j s).arr.length ≤ s.arr.length := by
    intro j
    induction j with
    | zero => intro s; exact Nat.le_refl _
    | succ i ih =>
      intro s
      refine Nat.le_trans (ih _) ?_
      unfold Keepalive.iter
      have hc : ∀ s' : Keepalive.St, (Keepalive.consume s').arr.length ≤ s'.arr.length := by
        intro s'
        unfold Keepalive.consume
        split
        · rename_i heq
          split
          · split <;> simp [heq]
          · exact Nat.le_refl _
        · exact Nat.le_refl _
      have ha : ∀ (m : Nat) (s' : Keepalive.St) (t : Nat), (Keepalive.advance iv m s' t).arr = s'.arr := by
        intro m
        induction m with
        | zero => intro s' t; rfl
        | succ q ihq =>
          intro s' t
          rw [Keepalive.advance]
          split
          · rw [ihq]; unfold Keepalive.fire; split <;> rfl
          · split
            · split
              · unfold Keepalive.fire; split <;> rfl
              · rfl
              · rfl
            · rfl
      split
      · exact hc s
      · refine Nat.le_trans (hc _) ?_
        simp [ha]
  have := hlen k (Keepalive.init iv arr sched)
  have harr : (Keepalive.init iv arr sched).arr = arr := rfl
  rw [harr] at this
  split <;> omega

/-- F12's first scenario after the repair, executed: iv = 3 s, to = 2 s (an accepted pair), one data frame at 1.8 s, the
    peer never answers: pings at 6 s and 9 s, the timeout is reported at 10.08 s ≤ 6 s + 2·2 s (before: 11.8 s). -/
theorem C16_detect_former_counterexample :
    App.argsAccepted 3072 (some 2048) = true ∧
    (Keepalive.run 3072 2048 20480 100 [(1843, .data)] []).2 = some 10035 ∧ 10035 ≤ 6144 + 2 * 2048 := by
  decide

/-- the same on the full application model: the trace of `run_forever` -/
example :
    let c : App.Cfg := { has := fun cb => cb = .onError, plan := fun _ => [], iv := 3072, to := some 2048,
                         payload := [], reconnect := 0, ssl := false, horizon := 20480, fuel := 100 }
    let tr := (App.runForever c { dials := [.established [⟨1843, false, .message 1 [0x78] false⟩]] }).trace
    (tr.filterMap fun te => match te.2 with
      | .wrote 9 _ => some (te.1, "ping") | .cb .onError [.exn .timeout] => some (te.1, "timeout") | _ => none) =
      [(6144, "ping"), (9216, "ping"), (10035, "timeout")] := by
  decide

open WS.Lemmas.Keepalive in
/-- **C16_no_false_positive** — for every accepted pair (`to < iv`), EVERY arrival pattern (data frames, further pongs,
    unsolicited pongs at any time), every order at simultaneous wake-ups (schedule), every horizon and fuel: a peer that
    answers every ping within `to` (`Answering`: each ping whose answer window lies before the horizon is followed by a
    pong within `to`) is never reported. -/
theorem C16_no_false_positive (iv to horizon fuel : Nat) (arr : List (Nat × Keepalive.Kind)) (sched : List Bool)
    (hto : to < iv) (hr : Answering iv to horizon arr) :
    (Keepalive.run iv to horizon fuel arr sched).2 = none := by
  unfold Keepalive.run
  exact loop_no_report iv to horizon arr hto hr fuel _ (ainv_init iv to horizon arr sched)

open WS.Lemmas.Keepalive in
/-- non-vacuity: iv = 10, to = 5, horizon 40; data frames at 3 and 25, pongs one tick after the pings at 20 and 30 AND an
    unsolicited pong at 28: the hypothesis holds (and the run indeed reports nothing). -/
example : Answering 10 5 40 [(3, .data), (21, .pong), (25, .data), (28, .pong), (31, .pong)] ∧
    Keepalive.run 10 5 40 50 [(3, .data), (21, .pong), (25, .data), (28, .pong), (31, .pong)] [true, false] = ([20, 30, 40], none) := by
  refine ⟨⟨by decide, ?_⟩, by decide⟩
  intro k hk hlt
  have : k = 2 ∨ k = 3 := by omega
  rcases this with rfl | rfl
  · exact ⟨21, by simp, by omega, by omega⟩
  · exact ⟨31, by simp, by omega, by omega⟩

/-- F12's second scenario after the repair, executed: iv = 2 s, to = 1 s; the peer answers the ping sent at 4 s one tick
    later and sends one more, unsolicited, pong at 5 s + 1 tick: nothing is reported up to the next ping (before: reported
    at that tick); when the peer then really stops answering (ping at 6 s), that is reported within two timeouts. -/
theorem C16_no_false_positive_former_counterexample :
    (Keepalive.run 2048 1024 6143 100 [(4097, .pong), (5121, .pong)] []).2 = none ∧
    (Keepalive.run 2048 1024 12287 100 [(4097, .pong), (5121, .pong)] []).2 = some 7169 ∧ 7169 ≤ 6144 + 2 * 1024 := by
  decide

end WS.Props.C16
