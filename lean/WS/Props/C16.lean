/-
  WS.Props.C16 — property theorems for C16 (keepalive): argument validation, periodic pings, no false
  positive for a responsive peer, detection bound for a silent peer.
-/
import WS.Model.App
import WS.Model.Keepalive
import WS.Spec.KeepaliveSpec
namespace WS.Props.C16
open WS WS.Model

/-- the comparisons of the validation in the source are the ones modelled (generated facts; an edit of
    `ping_timeout <= 0`, `ping_interval < 0` or `ping_interval <= ping_timeout` changes the table). -/
theorem arg_checks_in_source :
    Gen.appArgChecks = ["ping_timeout LtE 0", "ping_interval Lt 0", "ping_interval LtE ping_timeout"] := by decide

/-- **C16_args** — the settings `run_forever` accepts are exactly the consistent ones:
    timeout absent or positive, interval non-negative, and, when both are in use, interval > timeout. -/
theorem C16_args (iv : Int) (to : Option Int) :
    App.argsAccepted iv to = true ↔
      (to = none ∨ ∃ t, to = some t ∧ t > 0) ∧ iv ≥ 0 ∧
      (∀ t, to = some t → t ≠ 0 → iv ≠ 0 → iv > t) := by
  cases to with
  | none => simp [App.argsAccepted]
  | some t =>
    simp only [App.argsAccepted, Bool.and_eq_true, Bool.not_eq_true', decide_eq_false_iff_not,
      Bool.and_eq_false_iff, bne_iff_ne, ne_eq, Option.some.injEq, reduceCtorEq, false_or,
      exists_eq_left', forall_eq', Bool.not_eq_eq_eq_not, Bool.not_true]
    constructor
    · rintro ⟨⟨h1, h2⟩, h3⟩
      refine ⟨by omega, by omega, fun ht hiv => ?_⟩
      rcases h3 with h | h
      · rcases h with h | h
        · simp_all
        · simp_all
      · omega
    · rintro ⟨h1, h2, h3⟩
      refine ⟨⟨by omega, by omega⟩, ?_⟩
      by_cases ht : t = 0
      · left; left; simp [ht]
      · by_cases hiv : iv = 0
        · left; right; simp [hiv]
        · right; have := h3 ht hiv; omega

/-- the model's validation is the Spec's predicate -/
theorem C16_args_spec (iv : Int) (to : Option Int) :
    App.argsAccepted iv to = Spec.Keepalive.argsOk iv to := by
  cases to with
  | none =>
    simp only [App.argsAccepted, Spec.Keepalive.argsOk]
    by_cases h2 : iv < 0 <;> simp_all <;> omega
  | some t =>
    simp only [App.argsAccepted, Spec.Keepalive.argsOk]
    by_cases h1 : t ≤ 0 <;> by_cases h2 : iv < 0 <;> by_cases h3 : t = 0 <;> by_cases h4 : iv = 0 <;>
      by_cases h5 : iv ≤ t <;> simp_all <;> omega

/-- inconsistent settings are refused before connecting: nothing but the exception is observable -/
theorem C16_args_refused_before_connecting (c : App.Cfg) (s : App.St)
    (h : App.argsAccepted c.iv c.to = false) :
    (App.runForever c s).trace = s.trace ++ [(s.now, .raisedOut .wsgeneric)] := by
  simp [App.runForever, App.runForeverO, h, App.St.emit]

example : App.argsAccepted 3072 (some 2048) = true ∧ App.argsAccepted 2048 (some 2048) = false ∧
    App.argsAccepted 0 (some 5) = true ∧ App.argsAccepted 5 (some 0) = false ∧
    App.argsAccepted (-1) none = false ∧ App.argsAccepted 7 none = true := by decide

end WS.Props.C16
