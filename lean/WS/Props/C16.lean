/- WS.Props.C16 — property theorems (placeholder during construction) -/
import WS.Model.App
import WS.Spec.AppTrace
namespace WS.Props.C16
end WS.Props.C16
